#![no_main]
use libfuzzer_sys::fuzz_target;
fuzz_target!(|data: &[u8]| vcheck::fuzz_api::history(data));
