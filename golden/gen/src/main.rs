//! Golden vector generator (run against the pinned release only).
use cosmian_cover_crypt::{api::Covercrypt, traits::KemAc, AccessPolicy, EncryptedHeader, EncryptionHint, QualifiedAttribute};
use cosmian_crypto_core::bytes_ser_de::Serializable;
use serde_json::json;

fn hex(b: &[u8]) -> String {
    b.iter().map(|x| format!("{x:02x}")).collect()
}

fn main() {
    let out = std::env::args().nth(1).expect("output file");
    let config = std::env::args().nth(2).expect("config name");
    let cc = Covercrypt::default();
    let (mut msk, _) = cc.setup().unwrap();
    let s = &mut msk.access_structure;
    s.add_hierarchy("SEC".into()).unwrap();
    s.add_attribute(QualifiedAttribute::new("SEC", "LOW"), EncryptionHint::Classic, None).unwrap();
    s.add_attribute(QualifiedAttribute::new("SEC", "TOP"), EncryptionHint::Hybridized, Some("LOW")).unwrap();
    s.add_attribute(QualifiedAttribute::new("SEC", "MID"), EncryptionHint::Classic, Some("LOW")).unwrap();
    s.add_anarchy("DPT".into()).unwrap();
    for (a, h) in [("FIN", EncryptionHint::Classic), ("HR", EncryptionHint::Hybridized), ("Low Secret é", EncryptionHint::Classic)] {
        s.add_attribute(QualifiedAttribute::new("DPT", a), h, None).unwrap();
    }
    let mpk0 = cc.update_msk(&mut msk).unwrap();
    let p = |s: &str| AccessPolicy::parse(s).unwrap();
    // users
    let mut u_fin = cc.generate_user_secret_key(&mut msk, &p("SEC::MID && DPT::FIN")).unwrap();
    let u_top = cc.generate_user_secret_key(&mut msk, &p("SEC::TOP")).unwrap();
    let u_hr = cc.generate_user_secret_key(&mut msk, &p("DPT::HR")).unwrap();
    // encapsulations under the first public key
    let mut encs = vec![];
    for (pol, mpk_name) in [("DPT::FIN && SEC::LOW", "mpk0"), ("SEC::TOP", "mpk0"), ("DPT::HR || DPT::FIN", "mpk0"), ("*", "mpk0")] {
        let (s, e) = cc.encaps(&mpk0, &p(pol)).unwrap();
        encs.push(json!({"policy": pol, "mpk": mpk_name, "secret": hex(&s[..]), "enc": hex(&e.serialize().unwrap())}));
    }
    // history: rekey part of the rights, disable an attribute, update, refresh one user keeping old secrets
    let _ = cc.rekey(&mut msk, &p("DPT::FIN")).unwrap();
    msk.access_structure.disable_attribute(&QualifiedAttribute::new("DPT", "Low Secret é")).unwrap();
    let mpk1 = cc.update_msk(&mut msk).unwrap();
    cc.refresh_usk(&mut msk, &mut u_fin, true).unwrap();
    for pol in ["DPT::FIN && SEC::LOW", "SEC::TOP && DPT::HR", "SEC::MID"] {
        let (s, e) = cc.encaps(&mpk1, &p(pol)).unwrap();
        encs.push(json!({"policy": pol, "mpk": "mpk1", "secret": hex(&s[..]), "enc": hex(&e.serialize().unwrap())}));
    }
    // headers
    let mut headers = vec![];
    for (md, aad) in [(None, None), (Some(&b""[..]), None), (Some(&b"golden metadata"[..]), None), (Some(&b"golden metadata"[..]), Some(&b"golden aad"[..]))] {
        let (s, h) = EncryptedHeader::generate(&cc, &mpk1, &p("DPT::FIN && SEC::LOW"), md, aad).unwrap();
        let clear = h.decrypt(&cc, &u_fin, aad).unwrap().unwrap();
        headers.push(json!({
            "policy": "DPT::FIN && SEC::LOW",
            "metadata": md.map(hex), "aad": aad.map(hex), "secret": hex(&s[..]),
            "header": hex(&h.serialize().unwrap()),
            "cleartext": hex(&clear.serialize().unwrap()),
        }));
    }
    // which user opens which encapsulation (as decided by the pinned release itself)
    let users = [("SEC::MID && DPT::FIN (refreshed, keeps old secrets)", &u_fin), ("SEC::TOP", &u_top), ("DPT::HR", &u_hr)];
    let mut matrix = vec![];
    for (_, u) in &users {
        let mut row = vec![];
        for e in &encs {
            let bytes: Vec<u8> = (0..e["enc"].as_str().unwrap().len() / 2).map(|i| u8::from_str_radix(&e["enc"].as_str().unwrap()[2 * i..2 * i + 2], 16).unwrap()).collect();
            let x = cosmian_cover_crypt::XEnc::deserialize(&bytes).unwrap();
            row.push(cc.decaps(u, &x).unwrap().is_some());
        }
        matrix.push(row);
    }
    let doc = json!({
        "config": config,
        "produced_by": "pinned release (commit 8f3c295), golden/gen",
        "msk": hex(&msk.serialize().unwrap()),
        "mpk0": hex(&mpk0.serialize().unwrap()),
        "mpk1": hex(&mpk1.serialize().unwrap()),
        "structure": hex(&msk.access_structure.serialize().unwrap()),
        "users": users.iter().map(|(n, u)| json!({"policy": n, "usk": hex(&u.serialize().unwrap())})).collect::<Vec<_>>(),
        "encs": encs,
        "headers": headers,
        "opens": matrix,
    });
    std::fs::write(out, serde_json::to_string_pretty(&doc).unwrap()).unwrap();
}
