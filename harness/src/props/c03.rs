//! C03 — access decisions stay correct across access-structure edits.

use super::hist::*;
use super::Meta;
use crate::report::{CheckResult, Collector};
use crate::Ctx;

fn profile(thorough: bool) -> Profile {
    Profile {
        add_dim: 3,
        del_dim: 2,
        add_attr: 14,
        del_attr: 10,
        rename: 6,
        disable: 2,
        update: 14,
        keygen: 10,
        refresh: 8,
        encaps: 8,
        encaps_wide: 3,
        encaps_for: 12,
        check: 5,
        roundtrip: 7,
        bad_pct: 4,
        min_ops: 1,
        max_ops: if thorough { 50 } else { 25 },
        max_dims: 3,
        max_attrs: 3,
        max_rights: if thorough { 100 } else { 48 },
        ..Profile::zero()
    }
}

fn nontrivial(o: &Outcome) -> bool {
    (o.events.contains("add-after-delete") || o.events.contains("renamed") || o.events.contains("add-dim-after-del-dim"))
        && o.events.contains("enc-after-edit-with-keys")
        && o.counters.get("verdict:authorized-opened").copied().unwrap_or(0) > 0
        && o.counters.get("verdict:unauthorized-refused").copied().unwrap_or(0) > 0
}

const CLASSES: &[&str] = &[
    "add-after-delete",
    "add-after-rename",
    "add-with-after",
    "add-dim-after-del-dim",
    "del-attr",
    "del-dim",
    "renamed",
    "renamed-after-keygen",
    "attr-created-after-keygen",
    "enc-after-edit-with-keys",
    "update-dropped-rights",
    "refresh-after-delete:keep",
    "refresh-after-delete:nokeep",
    "roundtrip",
];

pub fn hc(thorough: bool) -> HistCheck<'static> {
    HistCheck {
        focus: "C03",
        profile: profile(thorough),
        nontrivial,
        classes: CLASSES,
        required: &["add-after-delete", "renamed", "enc-after-edit-with-keys"],
        reps: 1,
        stream: 3,
    }
}

pub fn run(ctx: &Ctx, col: &Collector) -> Meta {
    let h = hc(ctx.thorough);
    run_hist(ctx, col, &h, ctx.n(8000, 60_000));
    Meta {
        level: "exploration",
        rule: "random histories (proptest, vec of symbolic ops interpreted against the live model state) of add/delete/rename/disable attribute, add/delete dimension, update, key generation, refresh, encapsulation and round-trips on a random base structure; after every step the serialized structure / master key are compared with a name-level model (ids never reused, hierarchy order, rights), and the full user-key x encapsulation decapsulation matrix is compared with the model at checkpoints and at the end. Non-trivial = history with an add after a delete (or a rename, or a dimension re-added) followed by an encapsulation made after an edit while user keys existed, whose matrix contains both verdicts; distinct by the whole case".into(),
        exhaustive: false,
        assumptions: vec![
            "oracle = name-level model written from the property statement and API docs (attribute identity = model uid, never reused)".into(),
            "clauses naming two attributes of one dimension are not generated for user policies (no documented meaning)".into(),
        ],
    }
}

pub fn replay(_kind: &str, case: &serde_json::Value, col: &Collector) -> CheckResult {
    replay_hist(&hc(false), case, col)
}
