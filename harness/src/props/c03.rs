//! C03 — access decisions stay correct across access-structure edits.

use super::hist::*;
use super::Meta;
use crate::ccx::*;
use crate::report::{CheckResult, Collector, Fail};
use crate::runner::report_fail;
use crate::wire::WMsk;
use crate::Ctx;
use serde_json::json;

/// A structure that has lived long: attributes created around every point where the encoding of
/// an identifier grows or where an integer type could wrap (ids 126-129, 16 382-16 386,
/// 32 766-32 770, 65 534-65 538, and some in between), all other identifiers burnt by attributes
/// created and deleted. Every attribute must have its own right, and its key must open exactly
/// the encapsulations made for it.
pub fn large_ids(col: &Collector) -> CheckResult {
    let cc = Covercrypt::default();
    let e = |e: Error| Fail::new("large-ids-failed", short_err(&e));
    let (mut msk, _) = cc.setup().map_err(e)?;
    msk.access_structure.add_anarchy("BURN".into()).map_err(e)?;
    msk.access_structure.add_anarchy("D".into()).map_err(e)?;
    let keep: Vec<u64> = vec![5, 126, 127, 128, 129, 200, 16_382, 16_383, 16_384, 16_386, 20_000, 32_766, 32_767, 32_768, 32_770, 32_968, 50_000, 65_534, 65_535, 65_536, 65_538];
    let last = *keep.iter().max().unwrap();
    for i in 0..=last {
        if keep.contains(&i) {
            msk.access_structure.add_attribute(qa("D", &format!("k{i}")), hint(i % 5 == 0), None).map_err(e)?;
        } else {
            msk.access_structure.add_attribute(qa("BURN", &format!("b{i}")), hint(false), None).map_err(e)?;
        }
    }
    msk.access_structure.del_dimension("BURN").map_err(e)?;
    let mpk = cc.update_msk(&mut msk).map_err(e)?;
    let wm = WMsk::decode(&ser(&msk)?).map_err(|e| Fail::new("codec-cannot-decode-msk", e))?;
    let ids: Vec<u64> = wm.structure.dims.iter().flat_map(|d| d.attrs.iter().map(|a| a.id)).collect();
    let mut sorted = ids.clone();
    sorted.sort();
    if sorted != keep {
        return Err(Fail::new("attribute-ids-unexpected", format!("attribute ids of the long-lived structure: {sorted:?}, expected {keep:?}")));
    }
    let distinct: std::collections::BTreeSet<&Vec<u8>> = wm.rights.iter().map(|(r, _)| r).collect();
    if wm.rights.len() != keep.len() + 1 || distinct.len() != wm.rights.len() {
        return Err(Fail::new("rights-collide", format!("{} attributes with ids up to {last}: the master key holds {} rights ({} distinct), expected {}", keep.len(), wm.rights.len(), distinct.len(), keep.len() + 1)));
    }
    let mut keys = vec![];
    let mut encs = vec![];
    for i in &keep {
        let ap = AccessPolicy::Term(qa("D", &format!("k{i}")));
        keys.push(cc.generate_user_secret_key(&mut msk, &ap).map_err(e)?);
        encs.push(cc.encaps(&mpk, &ap).map_err(e)?);
    }
    for (a, k) in keys.iter().enumerate() {
        for (b, (s, x)) in encs.iter().enumerate() {
            col.eval(1);
            let got = match cc.decaps(k, x) {
                Ok(Some(v)) if v == *s => true,
                Ok(None) => false,
                other => return Err(Fail::new("decaps-error-on-valid-objects", format!("{:?}", other.map(|o| o.is_some()).map_err(|e| short_err(&e))))),
            };
            if got != (a == b) {
                return Err(Fail::new(
                    if got { "unauthorized-key-opens" } else { "authorized-key-cannot-open" },
                    format!("long-lived structure: key for the attribute with id {} vs encapsulation for the attribute with id {}: opens={got}", keep[a], keep[b]),
                ));
            }
            if a != b {
                col.nontrivial(&("large-ids", keep[a], keep[b]));
            }
        }
    }
    col.class("large-ids:verified");
    Ok(())
}

fn profile(thorough: bool) -> Profile {
    Profile {
        add_dim: 3,
        del_dim: 2,
        add_attr: 14,
        del_attr: 10,
        rename: 6,
        disable: 2,
        update: 14,
        keygen: 10,
        refresh: 8,
        encaps: 8,
        encaps_wide: 3,
        encaps_for: 12,
        check: 5,
        roundtrip: 7,
        bad_pct: 4,
        min_ops: 1,
        max_ops: if thorough { 50 } else { 25 },
        max_dims: 3,
        max_attrs: 3,
        max_rights: if thorough { 100 } else { 48 },
        ..Profile::zero()
    }
}

fn nontrivial(o: &Outcome) -> bool {
    (o.events.contains("add-after-delete") || o.events.contains("renamed") || o.events.contains("add-dim-after-del-dim"))
        && o.events.contains("enc-after-edit-with-keys")
        && o.counters.get("verdict:authorized-opened").copied().unwrap_or(0) > 0
        && o.counters.get("verdict:unauthorized-refused").copied().unwrap_or(0) > 0
}

const CLASSES: &[&str] = &[
    "add-after-delete",
    "add-after-rename",
    "add-with-after",
    "add-dim-after-del-dim",
    "del-attr",
    "del-dim",
    "renamed",
    "renamed-after-keygen",
    "attr-created-after-keygen",
    "enc-after-edit-with-keys",
    "update-dropped-rights",
    "refresh-after-delete:keep",
    "refresh-after-delete:nokeep",
    "roundtrip",
];

pub fn hc(thorough: bool) -> HistCheck<'static> {
    HistCheck {
        focus: "C03",
        profile: profile(thorough),
        nontrivial,
        classes: CLASSES,
        required: &["add-after-delete", "renamed", "enc-after-edit-with-keys"],
        reps: 1,
        stream: 3,
    }
}

pub fn run(ctx: &Ctx, col: &Collector) -> Meta {
    if let Err(f) = crate::runner::guarded(|| large_ids(col)) {
        report_fail(col, "large-ids", f, json!({}));
    }
    let h = hc(ctx.thorough);
    run_hist(ctx, col, &h, ctx.n(8000, 60_000));
    if col.class_count("large-ids:verified") == 0 && !col.stopped() {
        col.note("generator unhealthy: class large-ids:verified empty");
    }
    Meta {
        level: "exploration",
        rule: "random histories (proptest, vec of symbolic ops interpreted against the live model state) of add/delete/rename/disable attribute, add/delete dimension, update, key generation, refresh, encapsulation and round-trips on a random base structure; after every step the serialized structure / master key are compared with a name-level model (ids never reused, hierarchy order, rights), and the full user-key x encapsulation decapsulation matrix is compared with the model at checkpoints and at the end. Plus one fixed long-lived structure: 21 attributes with identifiers around 127/128, 16 383/16 384, 32 767/32 768 and 65 535/65 536 (65 000 identifiers burnt by attributes created and deleted): one right per attribute, all distinct, and the 21 x 21 key / encapsulation matrix is the identity. Non-trivial = history with an add after a delete (or a rename, or a dimension re-added) followed by an encapsulation made after an edit while user keys existed, whose matrix contains both verdicts; distinct by the whole case".into(),
        exhaustive: false,
        assumptions: vec![
            "oracle = name-level model written from the property statement and API docs (attribute identity = model uid, never reused)".into(),
            "clauses naming two attributes of one dimension are not generated for user policies (no documented meaning)".into(),
        ],
    }
}

pub fn replay(kind: &str, case: &serde_json::Value, col: &Collector) -> CheckResult {
    if kind == "large-ids" {
        return large_ids(col);
    }
    replay_hist(&hc(false), case, col)
}
