//! C16 — every secret, nonce and identifier is fresh.
//!
//! Long runs of calls with identical arguments, on one instance, on several instances and from
//! several threads sharing one instance; every value that must be fresh is inserted in a set per
//! kind and the insertion must succeed.

use super::Meta;
use crate::ccx::*;
use crate::report::{CheckResult, Collector, Fail};
use crate::runner::{report_fail, run_cases};
use crate::wire::{WMpk, WUsk, WXEnc};
use crate::Ctx;
use cosmian_crypto_core::{Dem, FixedSizeCBytes, Instantiable, Nonce, SymmetricKey};
use proptest::prelude::*;
use serde::{Deserialize, Serialize};
use serde_json::json;
use std::collections::HashSet;
use std::sync::Mutex;

#[derive(Clone, Debug, Serialize, Deserialize, Hash, PartialEq, Eq)]
pub struct FreshCase {
    /// sequence of call kinds: 0 encaps classic, 1 encaps hybrid, 2 pke, 3 header, 4 keygen, 5 rekey, 6 recaps, 7 key generation by a restored snapshot of the master key, 8 disable an attribute no other call uses + update
    pub calls: Vec<u8>,
    pub threads: u8,
    pub shared_instance: bool,
    pub ptx_len: u8,
}

fn strategy() -> impl Strategy<Value = FreshCase> {
    (proptest::collection::vec(0u8..9, 20..60), 1u8..=8, any::<bool>(), 0u8..40).prop_map(|(calls, threads, shared_instance, ptx_len)| FreshCase { calls, threads, shared_instance, ptx_len })
}

#[derive(Default)]
pub struct Sets {
    pub secrets: Mutex<HashSet<Vec<u8>>>,
    pub tags: Mutex<HashSet<Vec<u8>>>,
    pub traps: Mutex<HashSet<Vec<u8>>>,
    pub seeds: Mutex<HashSet<Vec<u8>>>,
    pub kem_cts: Mutex<HashSet<Vec<u8>>>,
    pub nonces: Mutex<HashSet<Vec<u8>>>,
    pub user_ids: Mutex<HashSet<Vec<u8>>>,
    pub markers: Mutex<HashSet<Vec<u8>>>,
    pub pub_values: Mutex<HashSet<Vec<u8>>>,
    /// public values that a rekey has replaced: no later public key may publish them again
    pub retired: Mutex<HashSet<Vec<u8>>>,
}

impl Sets {
    pub fn total(&self) -> usize {
        self.secrets.lock().unwrap().len()
            + self.tags.lock().unwrap().len()
            + self.traps.lock().unwrap().len()
            + self.seeds.lock().unwrap().len()
            + self.kem_cts.lock().unwrap().len()
            + self.nonces.lock().unwrap().len()
            + self.user_ids.lock().unwrap().len()
            + self.markers.lock().unwrap().len()
            + self.pub_values.lock().unwrap().len()
    }
}

fn ins(set: &Mutex<HashSet<Vec<u8>>>, v: &[u8], what: &str) -> CheckResult {
    if set.lock().unwrap().insert(v.to_vec()) {
        Ok(())
    } else {
        Err(Fail::new(format!("reused:{what}"), format!("{what} value {} was already produced by an earlier call", crate::wire::hex(&v[..v.len().min(16)]))))
    }
}

pub fn record_enc(sets: &Sets, secret: &[u8], enc: &XEnc) -> CheckResult {
    ins(&sets.secrets, secret, "encapsulated-secret")?;
    let b = ser(enc)?;
    let w = WXEnc::decode(&b).map_err(|e| Fail::new("codec-cannot-decode-xenc", e))?;
    ins(&sets.tags, &w.tag, "tag")?;
    for c in &w.c {
        ins(&sets.traps, c, "trap")?;
    }
    for (e, f) in &w.encs {
        ins(&sets.seeds, f, "masked-seed")?;
        if w.hyb {
            ins(&sets.kem_cts, e, "ml-kem-ciphertext")?;
        }
    }
    Ok(())
}

pub struct Inst {
    /// a fixed encapsulation that is re-encapsulated again and again
    pub fixed: Mutex<Option<XEnc>>,
    /// an older serialization of the master key ("backup")
    pub snapshot: Mutex<Option<Vec<u8>>>,
    pub cc: Covercrypt,
    pub msk: Mutex<MasterSecretKey>,
    pub mpk: std::sync::RwLock<MasterPublicKey>,
    pub usk: UserSecretKey,
    /// right -> public point currently published for it
    pub current: Mutex<std::collections::HashMap<Vec<u8>, Vec<u8>>>,
}

pub fn instance(sets: &Sets) -> Result<Inst, Fail> {
    let cc = Covercrypt::default();
    let e = |e: Error| Fail::new("fixture-failed", short_err(&e));
    let (mut msk, _) = cc.setup().map_err(e)?;
    msk.access_structure.add_hierarchy("SEC".into()).map_err(e)?;
    msk.access_structure.add_attribute(qa("SEC", "LOW"), hint(false), None).map_err(e)?;
    msk.access_structure.add_attribute(qa("SEC", "TOP"), hint(true), Some("LOW")).map_err(e)?;
    msk.access_structure.add_anarchy("DPT".into()).map_err(e)?;
    msk.access_structure.add_attribute(qa("DPT", "FIN"), hint(false), None).map_err(e)?;
    msk.access_structure.add_attribute(qa("DPT", "HR"), hint(true), None).map_err(e)?;
    // only ever touched by call kind 8
    msk.access_structure.add_attribute(qa("DPT", "TMP"), hint(false), None).map_err(e)?;
    let mpk = cc.update_msk(&mut msk).map_err(e)?;
    record_mpk(sets, &mpk, true)?;
    let usk = cc.generate_user_secret_key(&mut msk, &AccessPolicy::parse("SEC::TOP").unwrap()).map_err(e)?;
    record_usk(sets, &usk)?;
    let inst = Inst { fixed: Mutex::new(None), snapshot: Mutex::new(None), cc, msk: Mutex::new(msk), mpk: std::sync::RwLock::new(mpk), usk, current: Mutex::new(Default::default()) };
    {
        let mpk = inst.mpk.read().unwrap();
        note_published(sets, &inst, &mpk, true)?;
    }
    Ok(inst)
}

fn record_usk(sets: &Sets, usk: &UserSecretKey) -> CheckResult {
    let b = ser(usk)?;
    let w = WUsk::decode(&b).map_err(|e| Fail::new("codec-cannot-decode-usk", e))?;
    ins(&sets.user_ids, &w.id.concat(), "user-id")?;
    // all but the last marker are drawn at random: each must be fresh
    for m in &w.id {
        ins(&sets.markers, m, "user-id-marker")?;
    }
    Ok(())
}

/// every public value (H, ek, tracing points) of a newly published key must be new, except those
/// of rights that were not rotated: `all` = record everything, else only values not seen before
/// are expected for the rotated rights — the caller passes the rotated policy's key.
fn record_mpk(sets: &Sets, mpk: &MasterPublicKey, first: bool) -> CheckResult {
    let b = ser(mpk)?;
    let w = WMpk::decode(&b).map_err(|e| Fail::new("codec-cannot-decode-mpk", e))?;
    if first {
        for p in &w.tpk {
            ins(&sets.pub_values, p, "tracing-point")?;
        }
    }
    for (_r, k) in &w.keys {
        ins(&sets.pub_values, &k.h, "public-point-after-rekey")?;
        if k.hyb {
            ins(&sets.pub_values, &k.ek, "ml-kem-ek-after-rekey")?;
        }
    }
    Ok(())
}

/// Bookkeeping of what is published: after a rekey (`rotated`) the values it replaced are
/// retired; a public key returned by any other call (prune, update) must publish no retired value.
fn note_published(sets: &Sets, inst: &Inst, mpk: &MasterPublicKey, rotated: bool) -> CheckResult {
    let b = ser(mpk)?;
    let w = WMpk::decode(&b).map_err(|e| Fail::new("codec-cannot-decode-mpk", e))?;
    let mut cur = inst.current.lock().unwrap();
    let mut retired = sets.retired.lock().unwrap();
    for (r, k) in &w.keys {
        if retired.contains(&k.h) {
            return Err(Fail::new("retired-public-value-published-again", format!("a public key publishes {} again, a value that an earlier rekey had replaced", crate::wire::hex(&k.h[..k.h.len().min(16)]))));
        }
        if rotated {
            if let Some(old) = cur.insert(r.clone(), k.h.clone()) {
                if old != k.h {
                    retired.insert(old);
                }
            }
        } else {
            cur.entry(r.clone()).or_insert_with(|| k.h.clone());
        }
    }
    Ok(())
}

const POL: [&str; 2] = ["SEC::LOW && DPT::FIN || DPT::FIN", "SEC::TOP && DPT::HR || DPT::HR"];

pub fn one_call(inst: &Inst, sets: &Sets, kind: u8, ptx_len: u8, col: &Collector) -> CheckResult {
    match kind {
        0 | 1 => {
            let ap = AccessPolicy::parse(POL[kind as usize]).unwrap();
            let mpk = inst.mpk.read().unwrap();
            let (s, e) = inst.cc.encaps(&mpk, &ap).map_err(|e| Fail::new("encaps-failed", short_err(&e)))?;
            drop(mpk);
            record_enc(sets, &s[..], &e)?;
            col.class(if kind == 0 { "calls:encaps-classic" } else { "calls:encaps-hybridized" });
        }
        2 => {
            let ap = AccessPolicy::parse(POL[0]).unwrap();
            let ptx = vec![0x41u8; ptx_len as usize];
            let mpk = inst.mpk.read().unwrap();
            let (e, body) = pke_encrypt(&inst.cc, &mpk, &ap, &ptx).map_err(|e| Fail::new("encrypt-failed", short_err(&e)))?;
            drop(mpk);
            if body.len() < 12 {
                return Err(Fail::new("pke-body-too-short", "no nonce".to_string()));
            }
            ins(&sets.nonces, &body[..12], "pke-nonce")?;
            // the KEM part: the AEAD key is derived from the secret, so tag/traps must be fresh too
            let b = ser(&e)?;
            let w = WXEnc::decode(&b).map_err(|e| Fail::new("codec-cannot-decode-xenc", e))?;
            ins(&sets.tags, &w.tag, "tag")?;
            for c in &w.c {
                ins(&sets.traps, c, "trap")?;
            }
            col.class("calls:pke-encrypt");
        }
        3 => {
            let ap = AccessPolicy::parse("SEC::TOP").unwrap();
            let md = vec![0x42u8; 1 + ptx_len as usize];
            // header generation only reads the public key, so that several generations overlap
            let aad_buf = [0x61u8; 9];
            let aad: Option<&[u8]> = if ptx_len % 2 == 0 { Some(&aad_buf[..1 + (ptx_len as usize % 8)]) } else { None };
            col.class(if aad.is_some() { "header:with-aad" } else { "header:without-aad" });
            // lock order everywhere: public key (read / write) first, then master key; holding the
            // read lock until the control key exists keeps a rekey from slipping in between
            let mpk = inst.mpk.read().unwrap();
            let (secret, h) = EncryptedHeader::generate(&inst.cc, &mpk, &ap, Some(&md), aad).map_err(|e| Fail::new("header-generate-failed", short_err(&e)))?;
            let usk = {
                let mut msk = inst.msk.lock().unwrap();
                let k = inst.cc.generate_user_secret_key(&mut msk, &ap).map_err(|e| Fail::new("keygen-failed", short_err(&e)))?;
                record_usk(sets, &k)?;
                k
            };
            drop(mpk);
            let em = h.encrypted_metadata.clone().unwrap_or_default();
            if em.len() < 12 {
                return Err(Fail::new("header-metadata-too-short", "no nonce".to_string()));
            }
            ins(&sets.nonces, &em[..12], "header-metadata-nonce")?;
            ins(&sets.secrets, &secret[..], "header-secret")?;
            let b = ser(&h.encapsulation)?;
            let w = WXEnc::decode(&b).map_err(|e| Fail::new("codec-cannot-decode-xenc", e))?;
            ins(&sets.tags, &w.tag, "tag")?;
            // the metadata key must differ from the secret handed to the caller
            let mut kb = [0u8; 32];
            kb.copy_from_slice(&secret[..32]);
            let key = SymmetricKey::<32>::try_from_bytes(kb).map_err(|e| Fail::new("internal", e.to_string()))?;
            let nonce = Nonce::try_from_slice(&em[..12]).map_err(|e| Fail::new("internal", e.to_string()))?;
            if Aes256Gcm::new(&key).decrypt(&nonce, &em[12..], aad).is_ok() || Aes256Gcm::new(&key).decrypt(&nonce, &em[12..], None).is_ok() {
                return Err(Fail::new("metadata-key-equals-returned-secret", "the encrypted metadata decrypts under the secret returned to the caller used directly as AES-256-GCM key".to_string()));
            }
            match h.decrypt(&inst.cc, &usk, aad) {
                Ok(Some(c)) if c.metadata.as_deref() == Some(&md[..]) && c.secret == secret => col.class("header:control-decrypt-ok"),
                // a rekey of another thread slipped between the header and the control key
                Ok(None) => col.class("header:control-skipped(rekey interleaved)"),
                _ => return Err(Fail::new("header-authorized-path-failed", "authorized decryption of the header failed".to_string())),
            }
            col.class("calls:header-generate");
        }
        4 => {
            let ap = AccessPolicy::parse("SEC::LOW").unwrap();
            let mut msk = inst.msk.lock().unwrap();
            let usk = inst.cc.generate_user_secret_key(&mut msk, &ap).map_err(|e| Fail::new("keygen-failed", short_err(&e)))?;
            drop(msk);
            record_usk(sets, &usk)?;
            col.class("calls:keygen");
        }
        7 => {
            // restore a backup of the master key and issue a key from it: identifiers must be
            // fresh even across copies of one master key
            let bytes = {
                let msk = inst.msk.lock().unwrap();
                let mut snap = inst.snapshot.lock().unwrap();
                if snap.is_none() {
                    *snap = Some(ser(&*msk)?);
                }
                snap.clone().unwrap()
            };
            let mut restored: MasterSecretKey = de(&bytes).map_err(|e| Fail::new("msk-snapshot-unreadable", e))?;
            let usk = inst.cc.generate_user_secret_key(&mut restored, &AccessPolicy::parse("SEC::LOW").unwrap()).map_err(|e| Fail::new("keygen-failed", short_err(&e)))?;
            record_usk(sets, &usk)?;
            col.class("calls:keygen-from-restored-master-key");
        }
        6 => {
            // re-encapsulate the same encapsulation repeatedly: each result must be fresh
            let mpk = inst.mpk.read().unwrap();
            let msk = inst.msk.lock().unwrap();
            let mut fixed = inst.fixed.lock().unwrap();
            let orig = match fixed.as_ref() {
                Some(e) => e.clone(),
                None => {
                    let (_, e) = inst.cc.encaps(&mpk, &AccessPolicy::parse(POL[0]).unwrap()).map_err(|e| Fail::new("encaps-failed", short_err(&e)))?;
                    *fixed = Some(e.clone());
                    e
                }
            };
            match inst.cc.recaps(&msk, &mpk, &orig) {
                Ok((s, e)) => {
                    record_enc(sets, &s[..], &e)?;
                    col.class("calls:recaps");
                }
                Err(_) => {
                    // the fixed encapsulation was made under secrets pruned since: start over
                    *fixed = None;
                }
            }
        }
        8 => {
            // disable an attribute that no other call names (a second disabling is a no-op) and
            // make it effective: later rekeys must still publish only new values, and nothing for
            // the rights of the disabled attribute
            let mut mpk_slot = inst.mpk.write().unwrap();
            let mut msk = inst.msk.lock().unwrap();
            let _ = msk.access_structure.disable_attribute(&qa("DPT", "TMP"));
            let mpk = inst.cc.update_msk(&mut msk).map_err(|e| Fail::new("update-failed", short_err(&e)))?;
            note_published(sets, inst, &mpk, false)?;
            *mpk_slot = mpk;
            drop(msk);
            col.class("calls:disable+update");
        }
        _ => {
            let ap = AccessPolicy::parse("*").unwrap();
            let mut mpk_slot = inst.mpk.write().unwrap();
            let mut msk = inst.msk.lock().unwrap();
            let mpk = inst.cc.rekey(&mut msk, &ap).map_err(|e| Fail::new("rekey-failed", short_err(&e)))?;
            note_published(sets, inst, &mpk, true)?;
            // keep chains short, but let some histories hold several revisions; the public key a
            // prune returns publishes nothing that was retired
            if ptx_len % 2 == 0 {
                if let Ok(p) = inst.cc.prune_master_secret_key(&mut msk, &ap) {
                    note_published(sets, inst, &p, false)?;
                    col.class("calls:prune");
                }
            }
            record_mpk(sets, &mpk, false)?;
            *mpk_slot = mpk;
            drop(msk);
            col.class("calls:rekey");
        }
    }
    Ok(())
}

pub struct Global {
    pub sets: Sets,
    pub shared: Inst,
}

pub fn check_case(g: &Global, case: &FreshCase, col: &Collector) -> CheckResult {
    let own;
    let inst: &Inst = if case.shared_instance {
        &g.shared
    } else {
        own = instance(&g.sets)?;
        col.class("instances-created");
        &own
    };
    let threads = case.threads.max(1) as usize;
    if threads == 1 {
        for k in &case.calls {
            one_call(inst, &g.sets, *k, case.ptx_len, col)?;
        }
    } else {
        col.class("multi-thread-workloads");
        let res: Mutex<Option<Fail>> = Mutex::new(None);
        std::thread::scope(|s| {
            for t in 0..threads {
                let res = &res;
                let calls = &case.calls;
                let sets = &g.sets;
                s.spawn(move || {
                    for (i, k) in calls.iter().enumerate() {
                        if i % threads != t {
                            continue;
                        }
                        if let Err(f) = crate::runner::guarded(|| one_call(inst, sets, *k, case.ptx_len, col)) {
                            *res.lock().unwrap() = Some(f);
                            return;
                        }
                    }
                });
            }
        });
        if let Some(f) = res.into_inner().unwrap() {
            return Err(f);
        }
    }
    Ok(())
}

pub fn run(ctx: &Ctx, col: &Collector) -> Meta {
    let sets = Sets::default();
    let shared = match instance(&sets) {
        Ok(i) => i,
        Err(f) => {
            report_fail(col, "fresh", f, json!({}));
            return meta();
        }
    };
    let g = Global { sets, shared };
    // runner threads kept low: cases spawn their own threads on the shared instance
    let mut cfg = ctx.run_cfg(ctx.n(600, 12_000), 1);
    cfg.threads = 4.min(ctx.threads);
    run_cases(&cfg, "fresh", strategy, col, |c, col| check_case(&g, c, col));
    // contention bursts: many threads issuing the *same* kind of call at once on the shared
    // instance (the interleaving encaps/encaps/nonce/nonce needs overlapping calls of one kind)
    if !col.stopped() {
        for kind in [0u8, 1, 2, 3] {
            let fail: Mutex<Option<Fail>> = Mutex::new(None);
            let rounds = ctx.n(40, 400);
            std::thread::scope(|s| {
                for t in 0..8u8 {
                    let g = &g;
                    let fail = &fail;
                    s.spawn(move || {
                        for i in 0..rounds {
                            if let Err(f) = crate::runner::guarded(|| one_call(&g.shared, &g.sets, kind, t.wrapping_add(i as u8), col)) {
                                *fail.lock().unwrap() = Some(f);
                                return;
                            }
                        }
                    });
                }
            });
            col.eval(8 * rounds);
            col.class_n("burst-calls", 8 * rounds);
            if let Some(f) = fail.into_inner().unwrap() {
                report_fail(col, "fresh", f, json!({"calls": vec![kind; 40], "threads": 8, "shared_instance": true, "ptx_len": 3}));
                break;
            }
        }
    }
    // distinct values compared
    let total = g.sets.total();
    col.class_n("distinct:secrets", g.sets.secrets.lock().unwrap().len() as u64);
    col.class_n("distinct:tags", g.sets.tags.lock().unwrap().len() as u64);
    col.class_n("distinct:traps", g.sets.traps.lock().unwrap().len() as u64);
    col.class_n("distinct:masked-seeds", g.sets.seeds.lock().unwrap().len() as u64);
    col.class_n("distinct:ml-kem-ciphertexts", g.sets.kem_cts.lock().unwrap().len() as u64);
    col.class_n("distinct:aead-nonces", g.sets.nonces.lock().unwrap().len() as u64);
    col.class_n("distinct:user-ids", g.sets.user_ids.lock().unwrap().len() as u64);
    col.class_n("distinct:public-values", g.sets.pub_values.lock().unwrap().len() as u64);
    // every inserted value is a distinct non-trivial comparison
    for (i, v) in g.sets.tags.lock().unwrap().iter().enumerate() {
        col.nontrivial(&("tag", v));
        if i < 3 {
            col.sample(|| json!({"kind": "tag", "value": crate::wire::hex(v)}));
        }
    }
    for v in g.sets.nonces.lock().unwrap().iter() {
        col.nontrivial(&("nonce", v));
    }
    for v in g.sets.user_ids.lock().unwrap().iter() {
        col.nontrivial(&("uid", v));
    }
    for v in g.sets.secrets.lock().unwrap().iter() {
        col.nontrivial(&("secret", v));
    }
    col.class_n("distinct:total", total as u64);
    for c in ["calls:encaps-classic", "calls:encaps-hybridized", "calls:pke-encrypt", "calls:header-generate", "calls:keygen", "calls:rekey", "calls:recaps", "calls:keygen-from-restored-master-key", "calls:disable+update", "multi-thread-workloads", "instances-created"] {
        if col.class_count(c) == 0 && !col.stopped() {
            col.note(format!("generator unhealthy: class {c} empty"));
        }
    }
    meta()
}

fn meta() -> Meta {
    Meta {
        level: "exploration",
        rule: "generated workloads of 20-60 calls (encaps classic / hybridized, PKE encrypt, header generate, key generation, rekey '*', recaps of one fixed encapsulation, key generation by a restored backup of the master key, disabling of an otherwise unused attribute followed by an update) with identical arguments, run on one shared instance or on fresh instances, from 1-8 threads, followed by contention bursts (8 threads issuing the same kind of call at once on the shared instance) and with headers generated with and without authentication data; every returned secret, tag, trap, masked seed, ML-KEM ciphertext, AEAD nonce (PKE and header metadata), user-id marker vector and every public value published by a rekey is inserted in a run-wide set per kind and must be new, and no public key returned by a later prune or update may publish a value that a rekey had replaced; the header's encrypted metadata must not decrypt under the returned secret used as AES key while the authorized path succeeds. Non-trivial = each value compared; distinct_nontrivial counts the distinct tags, nonces, user ids and secrets".into(),
        exhaustive: false,
        assumptions: vec!["detects reuse and low-entropy sources (constant, counter, per-call reseeding), not statistical bias".into()],
    }
}

pub fn replay(_kind: &str, case: &serde_json::Value, col: &Collector) -> CheckResult {
    let c: FreshCase = serde_json::from_value(case.clone()).map_err(|e| Fail::new("replay-format", e.to_string()))?;
    let sets = Sets::default();
    let shared = instance(&sets)?;
    let g = Global { sets, shared };
    // a reuse needs at least two executions of the workload
    check_case(&g, &c, col)?;
    check_case(&g, &c, col)
}
