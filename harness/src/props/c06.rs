//! C06 — disabled attributes can never be encrypted to again, but stay decryptable.

use super::hist::*;
use super::Meta;
use crate::report::{CheckResult, Collector};
use crate::Ctx;

fn profile(thorough: bool) -> Profile {
    Profile {
        disable: 9,
        update: 12,
        rekey: 12,
        prune: 5,
        keygen: 8,
        refresh: 9,
        encaps: 6,
        encaps_wide: 2,
        encaps_for: 12,
        check: 5,
        roundtrip: 9,
        add_attr: 2,
        // edits of *other* attributes must not move a disabling (seed R9-C06A)
        del_attr: 2,
        rename: 1,
        bad_pct: 1,
        min_ops: 1,
        max_ops: if thorough { 50 } else { 25 },
        max_dims: 3,
        max_attrs: 3,
        max_rights: if thorough { 100 } else { 48 },
        ..Profile::zero()
    }
}

fn nontrivial(o: &Outcome) -> bool {
    o.events.contains("disabled-probe-refused")
        && (o.events.contains("mpk-after-disable:rekey")
            || o.events.contains("mpk-after-disable:prune")
            || o.events.contains("mpk-after-disable:roundtrip")
            || o.events.contains("mpk-after-disable:update"))
}

const CLASSES: &[&str] = &[
    "disabled",
    "disable-effective",
    "mpk-after-disable:update",
    "mpk-after-disable:rekey",
    "mpk-after-disable:prune",
    "mpk-after-disable:roundtrip",
    "disabled-probe-refused",
    "roundtrip",
];

pub fn hc(thorough: bool) -> HistCheck<'static> {
    HistCheck {
        focus: "C06",
        profile: profile(thorough),
        nontrivial,
        classes: CLASSES,
        required: &["mpk-after-disable:update", "mpk-after-disable:rekey", "mpk-after-disable:prune", "mpk-after-disable:roundtrip"],
        reps: 1,
        stream: 6,
    }
}

pub fn run(ctx: &Ctx, col: &Collector) -> Meta {
    let h = hc(ctx.thorough);
    run_hist(ctx, col, &h, ctx.n(5000, 30_000));
    Meta {
        level: "exploration",
        rule: "random histories containing disable + update followed by any mix of update, rekey, prune, master-key / public-key round-trips (public key re-derived from the deserialized master key), key generation, refresh and encapsulation; after every operation that yields a public key the driver probes encapsulation for every disabled attribute (alone and conjoined with an enabled attribute of another dimension): it must fail once the disable is effective, while policies without disabled attributes still encapsulate; activation flags in the serialized master key and the absence of the right in the serialized public key are compared with the model; earlier encapsulations must stay openable and refresh must succeed. Non-trivial = history in which a public key was produced by an operation other than the first update after the disable (the flag has to be carried) and a probe was refused; distinct by the whole case".into(),
        exhaustive: false,
        assumptions: vec!["the disable takes effect at the next successful update (statement: 'disabled and the master key updated')".into()],
    }
}

pub fn replay(_kind: &str, case: &serde_json::Value, col: &Collector) -> CheckResult {
    replay_hist(&hc(false), case, col)
}
