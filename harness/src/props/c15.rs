//! C15 — the policy parser is total and logically faithful.
//!
//! (a) exhaustive: every string up to a length bound over an alphabet of the grammar's
//!     metacharacters, a space, letters and a multi-byte character must parse or be rejected
//!     without panicking; strings that an independent reference parser of the documented grammar
//!     accepts must be accepted and be logically equivalent to the reference reading.
//! (b) generated formulas printed with arbitrary spacing / redundant parentheses must parse, be
//!     equivalent (AST and DNF) to the reference evaluation under all truth assignments and keep
//!     the attribute names exactly.
//! (c) random longer strings over a wider alphabet (totality).

use super::Meta;
use crate::ccx::*;
use crate::gen::Bits;
use crate::report::{CheckResult, Collector, Fail};
use crate::runner::{par_for, report_fail, run_cases};
use crate::Ctx;
use proptest::prelude::*;
use serde::{Deserialize, Serialize};
use serde_json::json;
use std::collections::BTreeSet;

const ALPHABET: &[char] = &['A', 'b', ':', '&', '|', '(', ')', '*', ' ', 'é'];

// ------------------------------------------------------------------ reference formula

#[derive(Clone, Debug, Serialize, Deserialize, Hash, PartialEq, Eq)]
pub enum F {
    Atom(u8),
    And(Box<F>, Box<F>),
    Or(Box<F>, Box<F>),
}

impl F {
    fn eval(&self, assign: u32) -> bool {
        match self {
            F::Atom(i) => assign >> i & 1 == 1,
            F::And(a, b) => a.eval(assign) && b.eval(assign),
            F::Or(a, b) => a.eval(assign) || b.eval(assign),
        }
    }
    fn atoms(&self, out: &mut BTreeSet<u8>) {
        match self {
            F::Atom(i) => {
                out.insert(*i);
            }
            F::And(a, b) | F::Or(a, b) => {
                a.atoms(out);
                b.atoms(out);
            }
        }
    }
    fn has_or_under_and(&self) -> bool {
        match self {
            F::Atom(_) => false,
            F::And(a, b) => matches!(**a, F::Or(..)) || matches!(**b, F::Or(..)) || a.has_or_under_and() || b.has_or_under_and(),
            F::Or(a, b) => a.has_or_under_and() || b.has_or_under_and(),
        }
    }
    fn has_both(&self) -> (bool, bool) {
        match self {
            F::Atom(_) => (false, false),
            F::And(a, b) => {
                let (x, y) = (a.has_both(), b.has_both());
                (true, x.1 || y.1)
            }
            F::Or(a, b) => {
                let (x, y) = (a.has_both(), b.has_both());
                (x.0 || y.0, true)
            }
        }
    }
}

/// The atoms' names: dimension / attribute pairs, some multi-byte, some with inner spaces.
const ATOMS: &[(&str, &str)] = &[
    ("D1", "A"),
    ("D2", "B"),
    ("SEC", "Low Secret"),
    ("Région", "é"),
    ("D5", "日本"),
    ("Org Unit", "x y z"),
    ("*SEC", "T*P"),
    ("D*", "*"),
];

#[derive(Clone, Debug, Serialize, Deserialize, Hash, PartialEq, Eq)]
pub struct FormulaCase {
    pub f: F,
    pub shape: u64,
    /// which of the six atom names each atom index uses (rotation)
    pub rot: u8,
}

fn atom_name(case: &FormulaCase, i: u8) -> (&'static str, &'static str) {
    // rotations 0..5 use the first six names (as stored replays expect); 6 and 7 bring in the
    // names containing `*`
    if case.rot < 6 {
        ATOMS[(i as usize + case.rot as usize) % 6]
    } else {
        ATOMS[(i as usize + case.rot as usize) % ATOMS.len()]
    }
}

fn sp(bits: &mut Bits) -> &'static str {
    match bits.below(5) {
        0 | 1 => "",
        2 | 3 => " ",
        _ => "   ",
    }
}

/// prec: 0 = inside OR / top, 1 = inside AND
fn print(case: &FormulaCase, f: &F, bits: &mut Bits, prec: u8) -> String {
    match f {
        F::Atom(i) => {
            let (d, a) = atom_name(case, *i);
            let core = format!("{d}{}::{}{a}", sp(bits), sp(bits));
            if bits.below(5) == 0 {
                format!("({}{core}{})", sp(bits), sp(bits))
            } else {
                core
            }
        }
        F::And(a, b) => {
            let s = format!("{}{}&&{}{}", print(case, a, bits, 1), sp(bits), sp(bits), print(case, b, bits, 1));
            if bits.below(5) == 0 {
                format!("({}{s}{})", sp(bits), sp(bits))
            } else {
                s
            }
        }
        F::Or(a, b) => {
            let s = format!("{}{}||{}{}", print(case, a, bits, 0), sp(bits), sp(bits), print(case, b, bits, 0));
            if prec == 1 || bits.below(5) == 0 {
                format!("({}{s}{})", sp(bits), sp(bits))
            } else {
                s
            }
        }
    }
}

pub fn render_case(case: &FormulaCase) -> String {
    let mut bits = Bits::new(case.shape);
    let lead = sp(&mut bits);
    let body = print(case, &case.f, &mut bits, 0);
    format!("{lead}{body}{}", sp(&mut bits))
}

fn formula_strategy() -> impl Strategy<Value = FormulaCase> {
    let leaf = (0u8..5).prop_map(F::Atom);
    let f = leaf.prop_recursive(4, 12, 2, |inner| {
        prop_oneof![
            (inner.clone(), inner.clone()).prop_map(|(a, b)| F::And(Box::new(a), Box::new(b))),
            (inner.clone(), inner).prop_map(|(a, b)| F::Or(Box::new(a), Box::new(b))),
        ]
    });
    (f, any::<u64>(), 0u8..8).prop_map(|(f, shape, rot)| FormulaCase { f, shape, rot })
}

fn parse_guarded(s: &str) -> Result<Result<AccessPolicy, String>, Fail> {
    match std::panic::catch_unwind(|| AccessPolicy::parse(s)) {
        Ok(r) => Ok(r.map_err(|e| e.to_string())),
        Err(_) => {
            let (loc, msg) = crate::runner::take_panic();
            Err(Fail::new(
                format!("parse-panic@{loc}"),
                format!("AccessPolicy::parse({s:?}) panicked at {loc}: {msg}"),
            ))
        }
    }
}

pub fn check_formula(case: &FormulaCase, col: &Collector) -> CheckResult {
    let s = render_case(case);
    let mut atoms = BTreeSet::new();
    case.f.atoms(&mut atoms);
    let parsed = match parse_guarded(&s)? {
        Ok(p) => p,
        Err(e) => return Err(Fail::new("grammar-string-rejected", format!("string in the documented grammar rejected: {s:?}: {e}"))),
    };
    // names preserved exactly (modulo surrounding spaces)
    let mut got = vec![];
    policy_attrs(&parsed, &mut got);
    let got: BTreeSet<(String, String)> = got.into_iter().map(|q| (q.dimension, q.name)).collect();
    let want: BTreeSet<(String, String)> = atoms.iter().map(|i| atom_name(case, *i)).map(|(d, a)| (d.to_string(), a.to_string())).collect();
    if got != want {
        return Err(Fail::new("attribute-names-changed", format!("{s:?}: parsed attributes {got:?} != written {want:?}")));
    }
    let dnf = parsed.to_dnf();
    for c in &dnf {
        for q in c {
            if !want.contains(&(q.dimension.clone(), q.name.clone())) {
                return Err(Fail::new("dnf-invents-attribute", format!("{s:?}: DNF mentions {q:?}")));
            }
        }
    }
    let idx: Vec<u8> = atoms.iter().copied().collect();
    for m in 0u32..(1 << idx.len()) {
        // assignment over atom indices
        let mut assign = 0u32;
        for (k, i) in idx.iter().enumerate() {
            if m >> k & 1 == 1 {
                assign |= 1 << i;
            }
        }
        let truth = |q: &QualifiedAttribute| {
            idx.iter().any(|i| {
                let (d, a) = atom_name(case, *i);
                d == q.dimension && a == q.name && (assign >> i & 1 == 1)
            })
        };
        let want = case.f.eval(assign);
        if eval_policy(&parsed, &truth) != want {
            return Err(Fail::new("parsed-policy-not-equivalent", format!("{s:?}: AST evaluates to {} under assignment {assign:#b}, reference says {want}", !want)));
        }
        if eval_dnf(&dnf, &truth) != want {
            return Err(Fail::new("dnf-not-equivalent", format!("{s:?}: DNF evaluates to {} under assignment {assign:#b}, reference says {want}", !want)));
        }
    }
    col.class_n("assignments", 1 << idx.len());
    let (has_and, has_or) = case.f.has_both();
    let nt = has_and && has_or && case.f.has_or_under_and();
    if nt {
        col.class("formula:or-under-and");
        if col.nontrivial(&("f", &s)) {
            col.sample(|| json!({"kind": "formula", "string": s, "atoms": idx.len()}));
        }
    }
    if !s.is_ascii() {
        col.class("formula:multibyte");
    }
    Ok(())
}

// ------------------------------------------------------------------ reference parser for the sweep

#[derive(Debug, Clone)]
enum Tok {
    Attr(String, String),
    And,
    Or,
    L,
    R,
    Star,
}

/// Tokenise per the documented grammar; None = not in the grammar (no judgement).
fn tokenize(s: &str) -> Option<Vec<Tok>> {
    let cs: Vec<char> = s.chars().collect();
    let mut i = 0;
    let mut out = vec![];
    while i < cs.len() {
        let c = cs[i];
        match c {
            ' ' => i += 1,
            '(' => {
                out.push(Tok::L);
                i += 1
            }
            ')' => {
                out.push(Tok::R);
                i += 1
            }
            '&' => {
                if i + 1 < cs.len() && cs[i + 1] == '&' {
                    out.push(Tok::And);
                    i += 2
                } else {
                    return None;
                }
            }
            '|' => {
                if i + 1 < cs.len() && cs[i + 1] == '|' {
                    out.push(Tok::Or);
                    i += 2
                } else {
                    return None;
                }
            }
            _ => {
                let mut j = i;
                while j < cs.len() && !"()&|".contains(cs[j]) {
                    j += 1;
                }
                let word: String = cs[i..j].iter().collect();
                let w = word.trim();
                if w == "*" {
                    out.push(Tok::Star);
                } else {
                    // dimension '::' component, each /[^&|: ]+/ (inner spaces tolerated as in the doc example)
                    let (d, a) = w.split_once("::")?;
                    let (d, a) = (d.trim(), a.trim());
                    // `*` is an ordinary name character of the documented grammar (/[^&|: ]+/); only
                    // the word `*` alone is the broadcast
                    if d.is_empty() || a.is_empty() || d.contains(':') || a.contains(':') {
                        return None;
                    }
                    out.push(Tok::Attr(d.to_string(), a.to_string()));
                }
                i = j;
            }
        }
    }
    Some(out)
}

#[derive(Debug, Clone)]
enum RefAst {
    Attr(String, String),
    And(Box<RefAst>, Box<RefAst>),
    Or(Box<RefAst>, Box<RefAst>),
}

struct P {
    t: Vec<Tok>,
    i: usize,
}
impl P {
    fn or(&mut self) -> Option<RefAst> {
        let mut l = self.and()?;
        while matches!(self.t.get(self.i), Some(Tok::Or)) {
            self.i += 1;
            let r = self.and()?;
            l = RefAst::Or(Box::new(l), Box::new(r));
        }
        Some(l)
    }
    fn and(&mut self) -> Option<RefAst> {
        let mut l = self.atom()?;
        while matches!(self.t.get(self.i), Some(Tok::And)) {
            self.i += 1;
            let r = self.atom()?;
            l = RefAst::And(Box::new(l), Box::new(r));
        }
        Some(l)
    }
    fn atom(&mut self) -> Option<RefAst> {
        match self.t.get(self.i)? {
            Tok::Attr(d, a) => {
                let r = RefAst::Attr(d.clone(), a.clone());
                self.i += 1;
                Some(r)
            }
            Tok::L => {
                self.i += 1;
                let r = self.or()?;
                if matches!(self.t.get(self.i), Some(Tok::R)) {
                    self.i += 1;
                    Some(r)
                } else {
                    None
                }
            }
            _ => None,
        }
    }
}

fn ref_eval(a: &RefAst, truth: &dyn Fn(&str, &str) -> bool) -> bool {
    match a {
        RefAst::Attr(d, n) => truth(d, n),
        RefAst::And(x, y) => ref_eval(x, truth) && ref_eval(y, truth),
        RefAst::Or(x, y) => ref_eval(x, truth) || ref_eval(y, truth),
    }
}

fn ref_attrs(a: &RefAst, out: &mut BTreeSet<(String, String)>) {
    match a {
        RefAst::Attr(d, n) => {
            out.insert((d.clone(), n.clone()));
        }
        RefAst::And(x, y) | RefAst::Or(x, y) => {
            ref_attrs(x, out);
            ref_attrs(y, out);
        }
    }
}

/// Reference reading of `s` when it is in the conservative core of the documented grammar:
/// attributes, `&&`, `||`, parentheses; `*` alone. None = no judgement.
fn reference(s: &str) -> Option<Option<RefAst>> {
    let t = tokenize(s)?;
    if t.len() == 1 && matches!(t[0], Tok::Star) {
        return Some(None);
    }
    if t.iter().any(|x| matches!(x, Tok::Star)) {
        return None;
    }
    let mut p = P { t, i: 0 };
    let a = p.or()?;
    if p.i != p.t.len() {
        return None;
    }
    Some(Some(a))
}

pub fn check_string(s: &str, col: &Collector) -> CheckResult {
    let r = parse_guarded(s)?;
    match &r {
        Ok(_) => col.class("string:accepted"),
        Err(_) => col.class("string:rejected"),
    }
    if let Some(reference) = reference(s) {
        col.class("string:in-reference-grammar");
        let parsed = match r {
            Ok(p) => p,
            Err(e) => return Err(Fail::new("grammar-string-rejected", format!("string in the documented grammar rejected: {s:?}: {e}"))),
        };
        match reference {
            None => {
                if parsed != AccessPolicy::Broadcast {
                    return Err(Fail::new("star-not-broadcast", format!("{s:?} parsed to {parsed:?}")));
                }
            }
            Some(ast) => {
                let mut attrs = BTreeSet::new();
                ref_attrs(&ast, &mut attrs);
                let mut got = vec![];
                policy_attrs(&parsed, &mut got);
                let got: BTreeSet<(String, String)> = got.into_iter().map(|q| (q.dimension, q.name)).collect();
                if got != attrs {
                    return Err(Fail::new("attribute-names-changed", format!("{s:?}: parsed attributes {got:?} != written {attrs:?}")));
                }
                let list: Vec<&(String, String)> = attrs.iter().collect();
                if list.len() <= 10 {
                    let dnf = parsed.to_dnf();
                    for m in 0u32..(1 << list.len()) {
                        let t_ref = |d: &str, n: &str| list.iter().position(|x| x.0 == d && x.1 == n).map(|k| m >> k & 1 == 1).unwrap_or(false);
                        let t_q = |q: &QualifiedAttribute| t_ref(&q.dimension, &q.name);
                        let want = ref_eval(&ast, &t_ref);
                        if eval_policy(&parsed, &t_q) != want {
                            return Err(Fail::new("parsed-policy-not-equivalent", format!("{s:?}: AST disagrees with the reference reading under assignment {m:#b}")));
                        }
                        if eval_dnf(&dnf, &t_q) != want {
                            return Err(Fail::new("dnf-not-equivalent", format!("{s:?}: DNF disagrees with the reference reading under assignment {m:#b}")));
                        }
                    }
                }
            }
        }
    }
    // non-trivial: a multi-byte character adjacent to a metacharacter
    let cs: Vec<char> = s.chars().collect();
    let adj = cs.windows(2).any(|w| (w[0].len_utf8() > 1 && "()&|:".contains(w[1])) || (w[1].len_utf8() > 1 && "()&|:".contains(w[0])));
    if adj {
        col.class("string:multibyte-adjacent-to-metachar");
        if col.nontrivial(&("s", s)) && cs.len() >= 4 {
            col.sample(|| json!({"kind": "string", "string": s}));
        }
    }
    Ok(())
}

fn nth_string(mut i: u64, len: usize) -> String {
    let mut s = String::new();
    for _ in 0..len {
        s.push(ALPHABET[(i % ALPHABET.len() as u64) as usize]);
        i /= ALPHABET.len() as u64;
    }
    s
}

pub fn run(ctx: &Ctx, col: &Collector) -> Meta {
    // (a) exhaustive sweep
    let max_len = if ctx.thorough { 7 } else { 6 };
    for len in 0..=max_len {
        let total = (ALPHABET.len() as u64).pow(len as u32);
        let chunk = 4096u64;
        let chunks = total.div_ceil(chunk);
        par_for(ctx.threads, chunks, col, |ci| {
            let lo = ci * chunk;
            let hi = (lo + chunk).min(total);
            for i in lo..hi {
                let s = nth_string(i, len);
                col.eval(1);
                if let Err(f) = check_string(&s, col) {
                    report_fail(col, "string", f, json!({"string": s}));
                    return;
                }
            }
        });
        col.class_n("sweep:strings", total);
    }
    // (c) random longer strings over a wider alphabet
    let wide: Vec<char> = ALPHABET.iter().copied().chain(['日', '😀', '\t', 'D', '1']).collect();
    let strat = || proptest::collection::vec(proptest::sample::select(wide.clone()), 0..40).prop_map(|v| v.into_iter().collect::<String>());
    run_cases(&ctx.run_cfg(ctx.n(600_000, 3_000_000), 1), "string", strat, col, |s, col| check_string(s, col));
    // (b) formulas
    run_cases(&ctx.run_cfg(ctx.n(100_000, 600_000), 2), "formula", formula_strategy, col, check_formula);

    for cls in ["formula:or-under-and", "formula:multibyte", "string:in-reference-grammar", "string:multibyte-adjacent-to-metachar"] {
        if col.class_count(cls) == 0 && !col.stopped() {
            col.note(format!("generator unhealthy: class {cls} empty"));
        }
    }
    Meta {
        level: "exploration",
        rule: format!(
            "all strings of length <= {max_len} over {:?} (exhaustive), random strings <= 40 chars over a wider alphabet, and random formulas over <= 5 atoms printed with random spacing / redundant parentheses, each evaluated under all truth assignments against a reference evaluator; non-trivial = formula with both operators and an OR under an AND (distinct by printed string), or string with a multi-byte character adjacent to a metacharacter (distinct by string)",
            ALPHABET
        ),
        exhaustive: true,
        assumptions: vec![
            "reference grammar = attributes `dim::name` (names without & | : ( ) *), &&, ||, parentheses, AND before OR; `*` alone; strings outside it are only required not to panic".into(),
        ],
    }
}

pub fn replay(kind: &str, case: &serde_json::Value, col: &Collector) -> CheckResult {
    match kind {
        "string" => {
            let s = case["string"].as_str().or(case.as_str()).unwrap_or("").to_string();
            check_string(&s, col)
        }
        "formula" => {
            let c: FormulaCase = serde_json::from_value(case.clone()).map_err(|e| Fail::new("replay-format", e.to_string()))?;
            check_formula(&c, col)
        }
        k => Err(Fail::new("replay-format", format!("unknown kind {k}"))),
    }
}
