//! C11 — post-quantum protection is applied exactly where the policy asks for it.

use super::hist::*;
use super::Meta;
use crate::ccx::*;
use crate::report::{CheckResult, Collector, Fail};
use crate::runner::report_fail;
use crate::wire::{self, WXEnc};
use crate::Ctx;
use serde_json::json;

/// Encapsulations with n targets that are all hybridized, and the same plus one classic target,
/// for n around every count at which something could switch (1, small, 14-17, 31-33, 63-65,
/// 127-129): the first must have the hybridized layout with n ML-KEM ciphertexts, the second the
/// classic one; both must open with a key of one of the hybridized attributes.
pub fn wide_flavours(thorough: bool, col: &Collector) -> CheckResult {
    let cc = Covercrypt::default();
    let e = |e: Error| Fail::new("wide-flavours-failed", short_err(&e));
    let mut counts = vec![1usize, 2, 3, 7, 14, 15, 16, 17, 31, 32, 33];
    if thorough {
        counts.extend([63, 64, 65, 127, 128, 129]);
    } else {
        counts.push(65);
    }
    let max = *counts.iter().max().unwrap();
    let (mut msk, _) = cc.setup().map_err(e)?;
    msk.access_structure.add_anarchy("W".into()).map_err(e)?;
    for i in 0..max {
        msk.access_structure.add_attribute(qa("W", &format!("h{i}")), hint(true), None).map_err(e)?;
    }
    msk.access_structure.add_attribute(qa("W", "classic"), hint(false), None).map_err(e)?;
    let mpk = cc.update_msk(&mut msk).map_err(e)?;
    let key = cc.generate_user_secret_key(&mut msk, &AccessPolicy::parse("W::h0").unwrap()).map_err(e)?;
    for n in counts {
        let all_hyb = (0..n).map(|i| AccessPolicy::Term(qa("W", &format!("h{i}")))).reduce(|a, b| a | b).unwrap();
        let mixed = all_hyb.clone() | AccessPolicy::Term(qa("W", "classic"));
        for (pol, want_hyb, targets) in [(all_hyb, true, n), (mixed, false, n + 1)] {
            col.eval(1);
            let (s, x) = cc.encaps(&mpk, &pol).map_err(e)?;
            let b = ser(&x)?;
            let w = WXEnc::decode(&b).map_err(|e| Fail::new("codec-cannot-decode-xenc", e))?;
            if w.hyb != want_hyb || w.encs.len() != targets || b.len() != WXEnc::formula_len(2, want_hyb, targets) {
                return Err(Fail::new(
                    "xenc-flavour",
                    format!(
                        "encapsulation for {n} hybridized attributes{}: hybridized layout = {}, {} components, {} bytes; expected hybridized = {want_hyb}, {targets} components, {} bytes",
                        if want_hyb { "" } else { " and one classic attribute" },
                        w.hyb,
                        w.encs.len(),
                        b.len(),
                        WXEnc::formula_len(2, want_hyb, targets)
                    ),
                ));
            }
            if want_hyb && w.encs.iter().any(|(ct, _)| ct.len() != wire::CT) {
                return Err(Fail::new("xenc-flavour", format!("encapsulation for {n} hybridized attributes: a component has no ML-KEM ciphertext")));
            }
            match cc.decaps(&key, &x) {
                Ok(Some(v)) if v == s => {}
                other => return Err(Fail::new("authorized-key-cannot-open", format!("{n} targets: {:?}", other.map(|o| o.is_some()).map_err(|e| short_err(&e))))),
            }
            col.nontrivial(&("wide", n, want_hyb));
        }
    }
    col.class("wide-flavours:verified");
    Ok(())
}

fn profile(thorough: bool) -> Profile {
    Profile {
        rekey: 12,
        keygen: 12,
        refresh: 10,
        encaps: 14,
        encaps_for: 12,
        check: 3,
        roundtrip: 8,
        add_attr: 3,
        update: 6,
        disable: 4,
        prune: 2,
        recaps: 6,
        bad_pct: 0,
        min_ops: 1,
        max_ops: if thorough { 40 } else { 22 },
        max_dims: 3,
        max_attrs: 3,
        max_rights: if thorough { 64 } else { 36 },
        ..Profile::zero()
    }
}

fn nontrivial(o: &Outcome) -> bool {
    o.events.contains("multi-target-mixed-flavours") || o.events.contains("hybrid-flavour-observed-after-rekey") || o.events.contains("mlkem-binding-probed") || o.events.contains("mlkem-dk-needed-probed")
}

const CLASSES: &[&str] = &["hybridized-enc", "multi-target-mixed-flavours", "hybrid-flavour-observed-after-rekey", "mlkem-binding-probed", "mlkem-dk-needed-probed", "hybridized-recaps", "rekeyed", "roundtrip", "multi-target-enc"];

pub fn hc(thorough: bool) -> HistCheck<'static> {
    HistCheck {
        focus: "C11",
        profile: profile(thorough),
        nontrivial,
        classes: CLASSES,
        required: &["hybridized-enc", "multi-target-mixed-flavours", "hybrid-flavour-observed-after-rekey", "mlkem-binding-probed", "mlkem-dk-needed-probed"],
        reps: 1,
        stream: 11,
    }
}

pub fn run(ctx: &Ctx, col: &Collector) -> Meta {
    let thorough = ctx.thorough;
    if let Err(f) = crate::runner::guarded(|| wide_flavours(thorough, col)) {
        report_fail(col, "wide-flavours", f, json!({"thorough": thorough}));
    }
    let h = hc(ctx.thorough);
    run_hist(ctx, col, &h, ctx.n(2500, 30_000));
    if col.class_count("wide-flavours:verified") == 0 && !col.stopped() {
        col.note("generator unhealthy: class wide-flavours:verified empty");
    }
    Meta {
        level: "exploration",
        rule: "random structures with arbitrary hint assignments (all-classic, all-hybridized, mixed within and across dimensions) and histories of rekey, refresh, round-trips, key generation and encapsulation with single / multiple targets of equal and mixed flavour; from the independently decoded wire forms: every revision of every right in the master key, every public key and every user-key secret carries ML-KEM material iff some attribute of the right was declared hybridized; an encapsulation has the hybridized layout (flag, one ML-KEM ciphertext per target, size = README formula) iff all its targets are hybridized; a re-encapsulation has the flavour of its own targets; flipping a bit inside an ML-KEM ciphertext makes an authorized key fail, and so does replacing every ML-KEM decapsulation key of the authorized key by a valid unrelated one (the ML-KEM layer must contribute to the secret); plus a fixed sweep of encapsulations with n all-hybridized targets and with n hybridized + 1 classic target for n in 1..129 around every power of two and 14-17: layout, component count, size formula, authorized opening. Non-trivial = history with a multi-target encapsulation of mixed flavours, a hybridized flavour observed after a rekey, or an ML-KEM binding probe; distinct by the whole case".into(),
        exhaustive: false,
        assumptions: vec!["flavour = presence of ML-KEM key material / ciphertexts in the serialized forms (sizes from the selected configuration)".into()],
    }
}

pub fn replay(kind: &str, case: &serde_json::Value, col: &Collector) -> CheckResult {
    if kind == "wide-flavours" {
        return wide_flavours(case["thorough"].as_bool().unwrap_or(false), col);
    }
    replay_hist(&hc(false), case, col)
}
