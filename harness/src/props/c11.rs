//! C11 — post-quantum protection is applied exactly where the policy asks for it.

use super::hist::*;
use super::Meta;
use crate::report::{CheckResult, Collector};
use crate::Ctx;

fn profile(thorough: bool) -> Profile {
    Profile {
        rekey: 12,
        keygen: 12,
        refresh: 10,
        encaps: 14,
        encaps_for: 12,
        check: 3,
        roundtrip: 8,
        add_attr: 3,
        update: 6,
        disable: 4,
        prune: 2,
        bad_pct: 0,
        min_ops: 1,
        max_ops: if thorough { 40 } else { 22 },
        max_dims: 3,
        max_attrs: 3,
        max_rights: if thorough { 64 } else { 36 },
        ..Profile::zero()
    }
}

fn nontrivial(o: &Outcome) -> bool {
    o.events.contains("multi-target-mixed-flavours") || o.events.contains("hybrid-flavour-observed-after-rekey") || o.events.contains("mlkem-binding-probed") || o.events.contains("mlkem-dk-needed-probed")
}

const CLASSES: &[&str] = &["hybridized-enc", "multi-target-mixed-flavours", "hybrid-flavour-observed-after-rekey", "mlkem-binding-probed", "mlkem-dk-needed-probed", "rekeyed", "roundtrip", "multi-target-enc"];

fn hc(thorough: bool) -> HistCheck<'static> {
    HistCheck {
        focus: "C11",
        profile: profile(thorough),
        nontrivial,
        classes: CLASSES,
        required: &["hybridized-enc", "multi-target-mixed-flavours", "hybrid-flavour-observed-after-rekey", "mlkem-binding-probed", "mlkem-dk-needed-probed"],
        reps: 1,
        stream: 11,
    }
}

pub fn run(ctx: &Ctx, col: &Collector) -> Meta {
    let h = hc(ctx.thorough);
    run_hist(ctx, col, &h, ctx.n(2500, 30_000));
    Meta {
        level: "exploration",
        rule: "random structures with arbitrary hint assignments (all-classic, all-hybridized, mixed within and across dimensions) and histories of rekey, refresh, round-trips, key generation and encapsulation with single / multiple targets of equal and mixed flavour; from the independently decoded wire forms: every revision of every right in the master key, every public key and every user-key secret carries ML-KEM material iff some attribute of the right was declared hybridized; an encapsulation has the hybridized layout (flag, one ML-KEM ciphertext per target, size = README formula) iff all its targets are hybridized; flipping a bit inside an ML-KEM ciphertext makes an authorized key fail, and so does replacing every ML-KEM decapsulation key of the authorized key by a valid unrelated one (the ML-KEM layer must contribute to the secret). Non-trivial = history with a multi-target encapsulation of mixed flavours, a hybridized flavour observed after a rekey, or an ML-KEM binding probe; distinct by the whole case".into(),
        exhaustive: false,
        assumptions: vec!["flavour = presence of ML-KEM key material / ciphertexts in the serialized forms (sizes from the selected configuration)".into()],
    }
}

pub fn replay(_kind: &str, case: &serde_json::Value, col: &Collector) -> CheckResult {
    replay_hist(&hc(false), case, col)
}
