//! C05 — revocation takes effect: pruned and deleted secrets leave refreshed keys.

use super::hist::*;
use super::Meta;
use crate::report::{CheckResult, Collector};
use crate::Ctx;

fn profile(thorough: bool) -> Profile {
    Profile {
        rekey: 14,
        prune: 10,
        del_attr: 5,
        disable: 2,
        del_dim: 1,
        add_attr: 2,
        rename: 2,
        update: 8,
        keygen: 9,
        refresh: 14,
        encaps: 5,
        encaps_wide: 3,
        encaps_for: 14,
        check: 6,
        roundtrip: 2,
        bad_pct: 2,
        min_ops: 1,
        max_ops: if thorough { 50 } else { 25 },
        max_dims: 3,
        max_attrs: 3,
        max_rights: if thorough { 100 } else { 48 },
        ..Profile::zero()
    }
}

fn nontrivial(o: &Outcome) -> bool {
    (o.events.contains("pruned-revisions") || o.events.contains("update-dropped-rights"))
        && o.events.contains("refresh-of-key-holding-removed-revision")
        && o.events.contains("enc-under-removed-revision-at-check")
}

const CLASSES: &[&str] = &[
    "pruned-revisions",
    "user-holds-pruned-revision",
    "update-dropped-rights",
    "refresh-of-key-holding-removed-revision",
    "refresh-after-delete:keep",
    "refresh-after-delete:nokeep",
    "enc-under-removed-revision-at-check",
    "enc-under-old-mpk",
    "rekeyed",
];

pub fn hc(thorough: bool) -> HistCheck<'static> {
    HistCheck {
        focus: "C05",
        profile: profile(thorough),
        nontrivial,
        classes: CLASSES,
        required: &["pruned-revisions", "refresh-of-key-holding-removed-revision", "refresh-after-delete:keep", "refresh-after-delete:nokeep", "enc-under-removed-revision-at-check"],
        reps: 1,
        stream: 5,
    }
}

pub fn run(ctx: &Ctx, col: &Collector) -> Meta {
    let h = hc(ctx.thorough);
    run_hist(ctx, col, &h, ctx.n(6000, 40_000));
    Meta {
        level: "exploration",
        rule: "random histories of rekey, prune (arbitrary policies), attribute / dimension deletion, update, refresh with either flag, key generation, encapsulation under old and new public keys; after every prune the serialized master chains must have length exactly 1 and hold the previous newest secret, after every refresh every secret of every user chain must be a revision the master key still holds, in order (compared byte-wise through the independent codec), and the decapsulation matrix must agree with the model (no opening under pruned revisions or deleted rights, everything else kept). Non-trivial = history with a prune or a deletion+update, followed by the refresh of a key that held a removed revision, and a matrix check that contains an encapsulation made under a removed revision; distinct by the whole case".into(),
        exhaustive: false,
        assumptions: vec!["oracle = revision-level reference model".into()],
    }
}

pub fn replay(_kind: &str, case: &serde_json::Value, col: &Collector) -> CheckResult {
    replay_hist(&hc(false), case, col)
}
