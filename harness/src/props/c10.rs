//! C10 — failed operations leave keys untouched.

use super::hist::*;
use super::Meta;
use crate::report::{CheckResult, Collector};
use crate::Ctx;

fn profile(thorough: bool) -> Profile {
    Profile {
        add_dim: 2,
        del_dim: 1,
        add_attr: 12,
        del_attr: 6,
        rename: 8,
        disable: 8,
        update: 7,
        rekey: 12,
        prune: 4,
        keygen: 10,
        refresh: 10,
        encaps_for: 5,
        check: 2,
        stale: 8,
        forged: 8,
        bad_pct: 30,
        min_ops: 1,
        max_ops: if thorough { 50 } else { 25 },
        max_dims: 3,
        max_attrs: 3,
        max_rights: if thorough { 100 } else { 48 },
        ..Profile::zero()
    }
}

fn nontrivial(o: &Outcome) -> bool {
    o.events.contains("late-error") || o.events.contains("forged-refresh")
}

const CLASSES: &[&str] = &["late-error", "forged-refresh", "stale-refresh-unknown-id", "stale-refresh-known-id", "refresh-after-delete:nokeep", "refresh-after-delete:keep"];

pub fn hc(thorough: bool) -> HistCheck<'static> {
    HistCheck {
        focus: "C10",
        profile: profile(thorough),
        nontrivial,
        classes: CLASSES,
        required: &["late-error", "forged-refresh", "stale-refresh-unknown-id", "err:born-disabled", "err:rekey-unheld", "err:keygen-unheld", "err:unknown-name-in-policy"],
        reps: if thorough { 8 } else { 3 },
        stream: 10,
    }
}

pub fn run(ctx: &Ctx, col: &Collector) -> Meta {
    let h = hc(ctx.thorough);
    run_hist(ctx, col, &h, ctx.n(3000, 15_000));
    Meta {
        level: "fault_enumeration",
        rule: format!("random histories weighted so that most mutating calls fail, covering every error cause the API can reach: unknown names (before any work), unheld right in rekey (after some rights may already be rotated), born-disabled right in update (after the secrets were moved out), unheld right in key generation, forged key in refresh, stale master key in refresh (valid signature, unknown id), right deleted before refresh; for every call returning Err the master key and the user key must compare equal (PartialEq, hash-order independent) to deserialize(serialize(.)) snapshots taken immediately before; each case is executed {} times with fresh instances because the position of the failing right is decided by hash order. Non-trivial = history containing a late error cause (born-disabled, rekey-unheld, keygen-unheld, stale unknown id) or a forged refresh; distinct by the whole case", if ctx.thorough { 8 } else { 3 }),
        exhaustive: false,
        assumptions: vec!["error causes are enumerated by the generator; the position of the failing right among the processed rights is decided by hash order inside the crate and is sampled by repetition".into()],
    }
}

pub fn replay(_kind: &str, case: &serde_json::Value, col: &Collector) -> CheckResult {
    replay_hist(&hc(false), case, col)
}
