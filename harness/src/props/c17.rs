//! C17 — every issued user key is registered and satisfies the tracing relation.

use crate::wire::WMsk;

/// sum_i a_i * t_i = s, and P_i = t_i * G for every tracer of the master key.
pub fn tracing_relation(wm: &WMsk, id: &[Vec<u8>]) -> Result<(), String> {
    if id.len() != wm.tracers.len() {
        return Err(format!("identifier has {} markers, master key has {} tracers", id.len(), wm.tracers.len()));
    }
    let tracers: Vec<Vec<u8>> = wm.tracers.iter().map(|(sk, _)| sk.clone()).collect();
    match crate::curve::linear_relation(id, &tracers, &wm.s) {
        Ok(true) => {}
        Ok(false) => return Err("markers combined with the master tracers do not give the master binding scalar".into()),
        Err(e) => return Err(format!("cannot evaluate the relation: {e}")),
    }
    for (k, (sk, pk)) in wm.tracers.iter().enumerate() {
        match crate::curve::is_public_of(pk, sk) {
            Ok(true) => {}
            Ok(false) => return Err(format!("tracer #{k}: public point is not sk*G")),
            Err(e) => return Err(format!("tracer #{k}: {e}")),
        }
    }
    Ok(())
}
