//! C17 — every issued user key is registered and satisfies the tracing relation.

use crate::wire::WMsk;

/// sum_i a_i * t_i = s, and P_i = t_i * G for every tracer of the master key.
pub fn tracing_relation(wm: &WMsk, id: &[Vec<u8>]) -> Result<(), String> {
    if id.len() != wm.tracers.len() {
        return Err(format!("identifier has {} markers, master key has {} tracers", id.len(), wm.tracers.len()));
    }
    let tracers: Vec<Vec<u8>> = wm.tracers.iter().map(|(sk, _)| sk.clone()).collect();
    match crate::curve::linear_relation(id, &tracers, &wm.s) {
        Ok(true) => {}
        Ok(false) => return Err("markers combined with the master tracers do not give the master binding scalar".into()),
        Err(e) => return Err(format!("cannot evaluate the relation: {e}")),
    }
    for (k, (sk, pk)) in wm.tracers.iter().enumerate() {
        match crate::curve::is_public_of(pk, sk) {
            Ok(true) => {}
            Ok(false) => return Err(format!("tracer #{k}: public point is not sk*G")),
            Err(e) => return Err(format!("tracer #{k}: {e}")),
        }
    }
    Ok(())
}

use super::hist::*;
use super::Meta;
use crate::report::{CheckResult, Collector};
use crate::Ctx;

fn profile(thorough: bool) -> Profile {
    Profile {
        keygen: 16,
        refresh: 16,
        rekey: 8,
        roundtrip: 12,
        stale: 10,
        forged: 3,
        encaps_for: 6,
        check: 3,
        prune: 2,
        bad_pct: 3,
        min_ops: 1,
        max_ops: if thorough { 50 } else { 25 },
        max_dims: 2,
        max_attrs: 3,
        max_rights: 16,
        ..Profile::zero()
    }
}

fn nontrivial(o: &Outcome) -> bool {
    o.events.contains("tracing-checked-after-refresh-or-roundtrip") || o.events.contains("stale-refresh-unknown-id")
}

const CLASSES: &[&str] = &["tracing-checked-after-refresh-or-roundtrip", "stale-refresh-unknown-id", "stale-refresh-known-id", "forged-refresh", "roundtrip", "rekeyed"];

fn hc(thorough: bool) -> HistCheck<'static> {
    HistCheck {
        focus: "C17",
        profile: profile(thorough),
        nontrivial,
        classes: CLASSES,
        required: &["tracing-checked-after-refresh-or-roundtrip", "stale-refresh-unknown-id", "stale-refresh-known-id"],
        reps: 1,
        stream: 17,
    }
}

pub fn run(ctx: &Ctx, col: &Collector) -> Meta {
    let h = hc(ctx.thorough);
    run_hist(ctx, col, &h, ctx.n(5000, 40_000));
    if col.class_count("tracing-relation-checked") == 0 && !col.stopped() {
        col.note("generator unhealthy: tracing relation never evaluated");
    }
    Meta {
        level: "exploration",
        rule: "random histories of key generation, refresh (both flags, after rekeys), master-key / user-key round-trips, and refreshes with older snapshots of the master key; after every generation, refresh and user-key round-trip, from the independently decoded master key, user key and public key: the key's marker vector is a member of the master key's user set, all registered vectors are pairwise distinct and as many as issued keys, sum(marker_i * tracer_i) equals the master binding scalar (recomputed with the curve library directly), every public tracer equals tracer_i * G, and the tracing points embedded in the user key and in the latest public key equal the public tracers; a key issued after a snapshot must be refused by that snapshot. Non-trivial = history in which the relation was checked after a refresh or round-trip, or a stale-snapshot refusal occurred; distinct by the whole case".into(),
        exhaustive: false,
        assumptions: vec!["scalar / point arithmetic is done with curve25519-dalek / p256 directly on the serialized bytes".into()],
    }
}

pub fn replay(_kind: &str, case: &serde_json::Value, col: &Collector) -> CheckResult {
    replay_hist(&hc(false), case, col)
}
