//! C17 — every issued user key is registered and satisfies the tracing relation.

use crate::wire::WMsk;

/// sum_i a_i * t_i = s, and P_i = t_i * G for every tracer of the master key.
pub fn tracing_relation(wm: &WMsk, id: &[Vec<u8>]) -> Result<(), String> {
    if id.len() != wm.tracers.len() {
        return Err(format!("identifier has {} markers, master key has {} tracers", id.len(), wm.tracers.len()));
    }
    let tracers: Vec<Vec<u8>> = wm.tracers.iter().map(|(sk, _)| sk.clone()).collect();
    match crate::curve::linear_relation(id, &tracers, &wm.s) {
        Ok(true) => {}
        Ok(false) => return Err("markers combined with the master tracers do not give the master binding scalar".into()),
        Err(e) => return Err(format!("cannot evaluate the relation: {e}")),
    }
    for (k, (sk, pk)) in wm.tracers.iter().enumerate() {
        match crate::curve::is_public_of(pk, sk) {
            Ok(true) => {}
            Ok(false) => return Err(format!("tracer #{k}: public point is not sk*G")),
            Err(e) => return Err(format!("tracer #{k}: {e}")),
        }
    }
    Ok(())
}

use super::hist::*;
use super::Meta;
use crate::ccx::*;
use crate::report::{CheckResult, Collector, Fail};
use crate::runner::run_cases;
use crate::wire::WUsk;
use crate::Ctx;
use proptest::prelude::*;
use serde::{Deserialize, Serialize};

/// Many keys issued by a small master key: the user set crosses the one-byte LEB128 count (128)
/// while the rest of the master key stays short.
#[derive(Clone, Debug, Serialize, Deserialize, Hash, PartialEq, Eq)]
pub struct ManyUsers {
    pub users: u16,
    /// attributes of the single dimension (0 = empty structure, keys for '*')
    pub attrs: u8,
    pub hybrid: bool,
    /// user count at which the first round-trip of the master key is made
    pub first_roundtrip: u16,
}

fn many_strategy(thorough: bool) -> impl Strategy<Value = ManyUsers> {
    let hi = if thorough { 700u16 } else { 300 };
    (prop_oneof![3 => 126u16..140, 2 => 1u16..hi], 0u8..3, any::<bool>(), prop_oneof![1 => 126u16..131, 1 => 1u16..200]).prop_map(|(users, attrs, hybrid, first_roundtrip)| ManyUsers { users, attrs, hybrid, first_roundtrip })
}

pub fn check_many(case: &ManyUsers, col: &Collector) -> CheckResult {
    let cc = Covercrypt::default();
    let e = |e: Error| Fail::new("fixture-failed", short_err(&e));
    let (mut msk, _) = cc.setup().map_err(e)?;
    if case.attrs > 0 {
        msk.access_structure.add_anarchy("D".into()).map_err(e)?;
        for i in 0..case.attrs {
            msk.access_structure.add_attribute(qa("D", &format!("a{i}")), hint(case.hybrid && i == 0), None).map_err(e)?;
        }
    }
    cc.update_msk(&mut msk).map_err(e)?;
    let ap = if case.attrs > 0 { AccessPolicy::parse("D::a0").unwrap() } else { AccessPolicy::Broadcast };
    let mut issued: Vec<(Vec<Vec<u8>>, UserSecretKey)> = vec![];
    let verify = |msk: &MasterSecretKey, issued: &[(Vec<Vec<u8>>, UserSecretKey)], when: &str| -> Result<MasterSecretKey, Fail> {
        let bytes = ser(msk)?;
        let restored: MasterSecretKey = de(&bytes).map_err(|e| Fail::new("msk-roundtrip-failed-with-many-users", format!("{when}: the master key ({} bytes, {} issued keys) cannot be read back: {e}", bytes.len(), issued.len())))?;
        let wm = WMsk::decode(&ser(&restored)?).map_err(|e| Fail::new("codec-cannot-decode-msk", e))?;
        if wm.users.len() != issued.len() {
            return Err(Fail::new("user-count-after-roundtrip", format!("{when}: {} identifiers registered after the round-trip, {} keys issued", wm.users.len(), issued.len())));
        }
        let set: std::collections::BTreeSet<&Vec<Vec<u8>>> = wm.users.iter().collect();
        if set.len() != wm.users.len() {
            return Err(Fail::new("duplicate-identifier", format!("{when}: registered identifiers are not pairwise distinct")));
        }
        for (k, (id, _)) in issued.iter().enumerate() {
            if !set.contains(id) {
                return Err(Fail::new("identifier-lost-in-roundtrip", format!("{when}: identifier of key #{k} is not registered after the round-trip")));
            }
        }
        if let Some((id, _)) = issued.last() {
            tracing_relation(&wm, id).map_err(|e| Fail::new("tracing-relation-violated", format!("{when}: last key: {e}")))?;
        }
        Ok(restored)
    };
    let mut roundtrips = 0;
    for n in 1..=case.users {
        let usk = cc.generate_user_secret_key(&mut msk, &ap).map_err(|e| Fail::new("keygen-failed", format!("key #{n}: {}", short_err(&e))))?;
        let wu = WUsk::decode(&ser(&usk)?).map_err(|e| Fail::new("codec-cannot-decode-usk", e))?;
        issued.push((wu.id, usk));
        if n == case.first_roundtrip || n == 127 || n == 128 || n == 129 || n == case.users {
            // continue with the restored key half of the time: the restored object must be as good
            let restored = verify(&msk, &issued, &format!("after {n} keys"))?;
            roundtrips += 1;
            if n % 2 == 0 {
                msk = restored;
            }
        }
    }
    // the first, the 128th and the last key are still refreshable by the (restored) master key
    for k in [0usize, 127, issued.len() - 1] {
        if let Some((_, usk)) = issued.get(k) {
            let mut u = usk.clone();
            cc.refresh_usk(&mut msk, &mut u, true).map_err(|e| Fail::new("issued-key-refused", format!("key #{k} of {} refused by refresh: {}", issued.len(), short_err(&e))))?;
        }
    }
    col.class_n("many-users:roundtrips", roundtrips);
    if case.users >= 128 {
        col.class("many-users:>=128");
        col.nontrivial(&("many", case));
    }
    Ok(())
}

fn profile(thorough: bool) -> Profile {
    Profile {
        keygen: 16,
        refresh: 16,
        rekey: 8,
        roundtrip: 12,
        stale: 10,
        forged: 3,
        encaps_for: 6,
        check: 3,
        prune: 2,
        bad_pct: 3,
        min_ops: 1,
        max_ops: if thorough { 50 } else { 25 },
        max_dims: 2,
        max_attrs: 3,
        max_rights: 16,
        ..Profile::zero()
    }
}

fn nontrivial(o: &Outcome) -> bool {
    o.events.contains("tracing-checked-after-refresh-or-roundtrip") || o.events.contains("stale-refresh-unknown-id")
}

const CLASSES: &[&str] = &["tracing-checked-after-refresh-or-roundtrip", "stale-refresh-unknown-id", "stale-refresh-known-id", "forged-refresh", "roundtrip", "rekeyed"];

pub fn hc(thorough: bool) -> HistCheck<'static> {
    HistCheck {
        focus: "C17",
        profile: profile(thorough),
        nontrivial,
        classes: CLASSES,
        required: &["tracing-checked-after-refresh-or-roundtrip", "stale-refresh-unknown-id", "stale-refresh-known-id"],
        reps: 1,
        stream: 17,
    }
}

pub fn run(ctx: &Ctx, col: &Collector) -> Meta {
    let h = hc(ctx.thorough);
    run_hist(ctx, col, &h, ctx.n(5000, 40_000));
    let thorough = ctx.thorough;
    run_cases(&ctx.run_cfg(ctx.n(48, 600), 171), "many-users", || many_strategy(thorough), col, check_many);
    if col.class_count("many-users:>=128") == 0 && !col.stopped() {
        col.note("generator unhealthy: class many-users:>=128 empty");
    }
    if col.class_count("tracing-relation-checked") == 0 && !col.stopped() {
        col.note("generator unhealthy: tracing relation never evaluated");
    }
    Meta {
        level: "exploration",
        rule: "random histories of key generation, refresh (both flags, after rekeys), master-key / user-key round-trips, and refreshes with older snapshots of the master key; after every generation, refresh and user-key round-trip, from the independently decoded master key, user key and public key: the key's marker vector is a member of the master key's user set, all registered vectors are pairwise distinct and as many as issued keys, sum(marker_i * tracer_i) equals the master binding scalar (recomputed with the curve library directly), every public tracer equals tracer_i * G, and the tracing points embedded in the user key and in the latest public key equal the public tracers; a key issued after a snapshot must be refused by that snapshot. Second kind: a small master key (empty structure or one dimension of 1-2 attributes) issues 1-300 keys (weighted to 126-139, where the user count needs a second LEB128 byte), with master-key round-trips at 127, 128, 129, a generated count and the end: the key must read back, register exactly the issued identifiers, keep the relation, and still refresh the first, 128th and last key. Non-trivial = history in which the relation was checked after a refresh or round-trip, or a stale-snapshot refusal occurred; distinct by the whole case".into(),
        exhaustive: false,
        assumptions: vec!["scalar / point arithmetic is done with curve25519-dalek / p256 directly on the serialized bytes".into()],
    }
}

pub fn replay(kind: &str, case: &serde_json::Value, col: &Collector) -> CheckResult {
    if kind == "many-users" {
        let c: ManyUsers = serde_json::from_value(case.clone()).map_err(|e| Fail::new("replay-format", e.to_string()))?;
        return check_many(&c, col);
    }
    replay_hist(&hc(false), case, col)
}
