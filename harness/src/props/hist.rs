//! Shared machinery of the history (stateful, model-based) checks: the case type, the weighted
//! operation generator, the executor and evidence helpers. Each property supplies a weight
//! profile, a rule deciding which executed histories are non-trivial, and its focus id.

use crate::ccx::*;
use crate::driver::{Abort, Op, World};
use crate::gen::{policy_spec, struct_spec, PolicySpec, StructSpec};
use crate::report::{CheckResult, Collector, Fail};
use crate::runner::run_cases;
use crate::Ctx;
use proptest::prelude::*;
use serde::{Deserialize, Serialize};
use serde_json::json;
use std::collections::BTreeSet;

#[derive(Clone, Debug, Serialize, Deserialize, Hash, PartialEq, Eq)]
pub struct HistCase {
    pub base: StructSpec,
    pub ops: Vec<Op>,
    /// tracers appended to the master key before anything else (0 = tracing level 1)
    #[serde(default)]
    pub extra_tracers: u8,
    /// temporary attributes created and deleted before the base structure, so that the attribute
    /// ids of the history start beyond 127 (two-byte LEB128 ids inside rights)
    #[serde(default)]
    pub id_offset: u8,
}

#[derive(Clone, Debug)]
pub struct Profile {
    pub add_dim: u32,
    pub del_dim: u32,
    pub add_attr: u32,
    pub del_attr: u32,
    pub rename: u32,
    pub disable: u32,
    pub update: u32,
    pub rekey: u32,
    pub prune: u32,
    pub keygen: u32,
    pub refresh: u32,
    pub encaps: u32,
    pub encaps_for: u32,
    pub encaps_wide: u32,
    pub check: u32,
    pub roundtrip: u32,
    pub recaps: u32,
    pub stale: u32,
    pub forged: u32,
    pub bad_pct: u32,
    pub min_ops: usize,
    pub max_ops: usize,
    pub max_dims: usize,
    pub max_attrs: usize,
    pub max_rights: usize,
    pub odd_names: bool,
}

impl Profile {
    pub fn zero() -> Self {
        Profile {
            add_dim: 0,
            del_dim: 0,
            add_attr: 0,
            del_attr: 0,
            rename: 0,
            disable: 0,
            update: 0,
            rekey: 0,
            prune: 0,
            keygen: 0,
            refresh: 0,
            encaps: 0,
            encaps_for: 0,
            encaps_wide: 0,
            check: 0,
            roundtrip: 0,
            recaps: 0,
            stale: 0,
            forged: 0,
            bad_pct: 0,
            min_ops: 4,
            max_ops: 25,
            max_dims: 3,
            max_attrs: 3,
            max_rights: 40,
            odd_names: true,
        }
    }
}

fn bad(pct: u32) -> impl Strategy<Value = u8> {
    (0u32..100, any::<u8>()).prop_map(move |(p, b)| if p < pct { 1 + b % 3 } else { 0 })
}
fn badb(pct: u32) -> impl Strategy<Value = bool> {
    (0u32..100).prop_map(move |p| p < pct)
}
fn ap() -> impl Strategy<Value = PolicySpec> {
    policy_spec(2, 2, 2)
}

pub fn op_strategy(p: &Profile) -> impl Strategy<Value = Op> {
    let b = p.bad_pct;
    let mut alts: Vec<(u32, BoxedStrategy<Op>)> = vec![];
    let mut add = |w: u32, s: BoxedStrategy<Op>| {
        if w > 0 {
            alts.push((w, s));
        }
    };
    add(p.add_dim, (0u8..8, any::<bool>()).prop_map(|(name, hier)| Op::AddDim { name, hier }).boxed());
    add(p.del_dim, (any::<u16>(), badb(b)).prop_map(|(dim, bad)| Op::DelDim { dim, bad }).boxed());
    add(
        p.add_attr,
        (any::<u16>(), 0u8..16, any::<bool>(), proptest::option::weighted(0.6, any::<u16>()), bad(b))
            .prop_map(|(dim, name, hybrid, after, bad)| Op::AddAttr { dim, name, hybrid, after, bad })
            .boxed(),
    );
    add(p.del_attr, (any::<u16>(), any::<u16>(), badb(b)).prop_map(|(dim, attr, bad)| Op::DelAttr { dim, attr, bad }).boxed());
    add(p.rename, (any::<u16>(), any::<u16>(), 0u8..16, badb(b)).prop_map(|(dim, attr, new, bad)| Op::Rename { dim, attr, new, bad }).boxed());
    add(p.disable, (any::<u16>(), any::<u16>(), badb(b)).prop_map(|(dim, attr, bad)| Op::Disable { dim, attr, bad }).boxed());
    add(p.update, Just(Op::Update).boxed());
    add(p.rekey, (ap(), bad(b)).prop_map(|(ap, bad)| Op::Rekey { ap, bad }).boxed());
    add(p.prune, (ap(), bad(b)).prop_map(|(ap, bad)| Op::Prune { ap, bad }).boxed());
    add(p.keygen, (ap(), bad(b)).prop_map(|(ap, bad)| Op::KeyGen { ap, bad }).boxed());
    add(p.refresh, (any::<u16>(), any::<bool>()).prop_map(|(usk, keep)| Op::Refresh { usk, keep }).boxed());
    add(p.encaps, (any::<u16>(), ap(), bad(b)).prop_map(|(mpk, ap, bad)| Op::Encaps { mpk, ap, bad }).boxed());
    add(p.encaps_for, (any::<u16>(), any::<u16>(), any::<u8>()).prop_map(|(mpk, usk, variant)| Op::EncapsFor { mpk, usk, variant }).boxed());
    add(p.encaps_wide, (any::<u16>(), any::<u16>()).prop_map(|(mpk, dim)| Op::EncapsWide { mpk, dim }).boxed());
    add(p.check, Just(Op::Check).boxed());
    add(p.roundtrip, (prop_oneof![3 => Just(0u8), 1 => Just(1u8), 2 => Just(2u8), 1 => Just(3u8)], any::<u16>()).prop_map(|(what, sel)| Op::RoundTrip { what, sel }).boxed());
    add(p.recaps, (any::<u16>(), any::<u16>()).prop_map(|(enc, mpk)| Op::Recaps { enc, mpk }).boxed());
    add(p.stale, (0u8..6, any::<u16>(), any::<bool>()).prop_map(|(back, usk, keep)| Op::ProbeStale { back, usk, keep }).boxed());
    add(p.forged, (any::<u16>(), 0u8..9, any::<bool>()).prop_map(|(usk, kind, keep)| Op::ProbeForged { usk, kind, keep }).boxed());
    proptest::strategy::Union::new_weighted(alts)
}

pub fn case_strategy(p: &Profile) -> impl Strategy<Value = HistCase> {
    (
        struct_spec(p.max_dims, p.max_attrs, p.max_rights, p.odd_names),
        proptest::collection::vec(op_strategy(p), p.min_ops..=p.max_ops),
    )
        .prop_flat_map(|(base, ops)| prop_oneof![12 => Just(0u8), 2 => Just(1u8), 2 => Just(2u8), 1 => Just(4u8)].prop_map(move |extra_tracers| (base.clone(), ops.clone(), extra_tracers)))
        .prop_flat_map(|(base, ops, extra_tracers)| prop_oneof![7 => Just(0u8), 1 => Just(130u8)].prop_map(move |id_offset| HistCase { base: base.clone(), ops: ops.clone(), extra_tracers, id_offset }))
}

// ------------------------------------------------------------------ byte decoder (fuzz target)

/// Reads choices from a byte string; an exhausted input reads as zeros.
pub struct ByteSource<'a> {
    d: &'a [u8],
    i: usize,
}
impl<'a> ByteSource<'a> {
    pub fn new(d: &'a [u8]) -> Self {
        Self { d, i: 0 }
    }
    pub fn is_empty(&self) -> bool {
        self.i >= self.d.len()
    }
    pub fn u8(&mut self) -> u8 {
        let v = self.d.get(self.i).copied().unwrap_or(0);
        self.i += 1;
        v
    }
    pub fn u16(&mut self) -> u16 {
        u16::from_le_bytes([self.u8(), self.u8()])
    }
    pub fn u64(&mut self) -> u64 {
        let mut b = [0u8; 8];
        for x in b.iter_mut() {
            *x = self.u8();
        }
        u64::from_le_bytes(b)
    }
    pub fn bool(&mut self) -> bool {
        self.u8() & 1 == 1
    }
    /// uniform-ish choice in 0..n (n <= 65536)
    pub fn below(&mut self, n: usize) -> usize {
        if n <= 1 {
            0
        } else if n <= 256 {
            self.u8() as usize % n
        } else {
            self.u16() as usize % n
        }
    }
}

fn dec_bad(s: &mut ByteSource, pct: u32) -> u8 {
    let p = s.below(100) as u32;
    let b = s.u8();
    if p < pct {
        1 + b % 3
    } else {
        0
    }
}

fn dec_policy(s: &mut ByteSource) -> PolicySpec {
    let broadcast = s.below(100) < 6;
    let ng = 1 + s.below(2);
    let mut groups = vec![];
    for _ in 0..ng {
        let nf = 1 + s.below(2);
        let mut g = vec![];
        for _ in 0..nf {
            let d = s.u16();
            let na = 1 + s.below(2);
            g.push((d, (0..na).map(|_| s.u16()).collect()));
        }
        groups.push(g);
    }
    let shape = s.u64();
    let stars = if s.below(5) == 4 { s.u8() } else { 0 };
    PolicySpec { broadcast, groups, shape, stars }
}

fn dec_op(s: &mut ByteSource, p: &Profile) -> Option<Op> {
    let b = p.bad_pct;
    let weights = [
        p.add_dim, p.del_dim, p.add_attr, p.del_attr, p.rename, p.disable, p.update, p.rekey, p.prune, p.keygen, p.refresh, p.encaps, p.encaps_for, p.encaps_wide, p.check, p.roundtrip, p.recaps, p.stale, p.forged,
    ];
    let total: u32 = weights.iter().sum();
    if total == 0 {
        return None;
    }
    let mut k = s.below(total as usize) as u32;
    let mut which = 0;
    for (i, w) in weights.iter().enumerate() {
        if k < *w {
            which = i;
            break;
        }
        k -= *w;
    }
    Some(match which {
        0 => Op::AddDim { name: s.below(8) as u8, hier: s.bool() },
        1 => Op::DelDim { dim: s.u16(), bad: (s.below(100) as u32) < b },
        2 => Op::AddAttr { dim: s.u16(), name: s.below(16) as u8, hybrid: s.bool(), after: if s.below(10) < 6 { Some(s.u16()) } else { None }, bad: dec_bad(s, b) },
        3 => Op::DelAttr { dim: s.u16(), attr: s.u16(), bad: (s.below(100) as u32) < b },
        4 => Op::Rename { dim: s.u16(), attr: s.u16(), new: s.below(16) as u8, bad: (s.below(100) as u32) < b },
        5 => Op::Disable { dim: s.u16(), attr: s.u16(), bad: (s.below(100) as u32) < b },
        6 => Op::Update,
        7 => Op::Rekey { ap: dec_policy(s), bad: dec_bad(s, b) },
        8 => Op::Prune { ap: dec_policy(s), bad: dec_bad(s, b) },
        9 => Op::KeyGen { ap: dec_policy(s), bad: dec_bad(s, b) },
        10 => Op::Refresh { usk: s.u16(), keep: s.bool() },
        11 => Op::Encaps { mpk: s.u16(), ap: dec_policy(s), bad: dec_bad(s, b) },
        12 => Op::EncapsFor { mpk: s.u16(), usk: s.u16(), variant: s.u8() },
        13 => Op::EncapsWide { mpk: s.u16(), dim: s.u16() },
        14 => Op::Check,
        15 => Op::RoundTrip { what: [0u8, 0, 0, 1, 2, 2, 3][s.below(7)], sel: s.u16() },
        16 => Op::Recaps { enc: s.u16(), mpk: s.u16() },
        17 => Op::ProbeStale { back: s.below(6) as u8, usk: s.u16(), keep: s.bool() },
        _ => Op::ProbeForged { usk: s.u16(), kind: s.below(9) as u8, keep: s.bool() },
    })
}

/// A history decoded from bytes: the same case space as `case_strategy`, laid out so that byte
/// mutations (insert / delete / splice) of a fuzzer are mutations of the operation sequence.
pub fn decode_case(data: &[u8], p: &Profile) -> HistCase {
    let mut s = ByteSource::new(data);
    let extra_tracers = [0u8, 0, 0, 0, 0, 0, 0, 0, 0, 0, 0, 0, 1, 1, 2, 2, 4][s.below(17)];
    let id_offset = if s.below(8) == 7 { 130 } else { 0 };
    let nd = 1 + s.below(p.max_dims.max(1));
    let mut raw = vec![];
    for _ in 0..nd {
        let hier = s.bool();
        let n = 1 + s.below(p.max_attrs.max(1));
        let order_seed = s.u16();
        let hints: Vec<u8> = (0..p.max_attrs).map(|_| s.below(4) as u8).collect();
        let name_seed = s.u16();
        raw.push((hier, n, order_seed, hints, name_seed));
    }
    let base = crate::gen::struct_from_raw(raw, p.max_rights, p.odd_names);
    let mut ops = vec![];
    while ops.len() < p.max_ops && !s.is_empty() {
        match dec_op(&mut s, p) {
            Some(op) => ops.push(op),
            None => break,
        }
    }
    HistCase { base, ops, extra_tracers, id_offset }
}

pub struct Outcome {
    pub events: BTreeSet<&'static str>,
    pub trace: Vec<String>,
    pub checks: u64,
    pub outcomes: u64,
    pub wire_checks: u64,
    pub counters: std::collections::BTreeMap<&'static str, u64>,
    pub outcomes_after_roundtrip: u64,
    pub off_property: Option<String>,
    pub soft: Vec<String>,
}

/// Apply the base structure to a fresh world (real API + model in lock-step) and update.
pub fn setup_world(focus: &str, base: &StructSpec, extra_tracers: u8, id_offset: u8) -> Result<World, Abort> {
    let mut w = World::new(focus).map_err(Abort::Violation)?;
    w.raise_tracing_level(extra_tracers)?;
    if id_offset > 0 {
        w.add_dim_named("TMP", false)?;
        for i in 0..id_offset {
            w.add_attr_named("TMP", &format!("t{i}"), false, None)?;
        }
        w.del_dim_named("TMP")?;
        w.trace.clear();
        w.trace.push(format!("{id_offset} temporary attributes created and deleted (attribute ids now start at {id_offset})"));
    }
    for d in &base.dims {
        let name_ix = crate::gen::DIM_NAMES.iter().position(|n| *n == d.name);
        match name_ix {
            Some(ix) => w.exec(&Op::AddDim { name: ix as u8, hier: d.hier })?,
            None => {
                // names outside the pool (suffixes): go through the same code path by hand
                w.add_dim_named(&d.name, d.hier)?;
            }
        }
    }
    for (d, a, h, after) in base.insertion_plan() {
        w.add_attr_named(&d, &a, h, after.as_deref())?;
    }
    w.exec(&Op::Update)?;
    w.events.clear();
    Ok(w)
}

pub fn execute(focus: &str, case: &HistCase) -> Result<Outcome, Fail> {
    let mut w = match setup_world(focus, &case.base, case.extra_tracers, case.id_offset) {
        Ok(w) => w,
        Err(Abort::Violation(f)) => return Err(f),
        Err(Abort::OffProperty(s)) => {
            return Ok(Outcome {
                events: BTreeSet::new(),
                trace: vec![],
                checks: 0,
                outcomes: 0,
                wire_checks: 0,
                counters: Default::default(),
                outcomes_after_roundtrip: 0,
                off_property: Some(s),
                soft: vec![],
            })
        }
    };
    w.remember_msk();
    let r = w.run(&case.ops);
    let mut out = Outcome {
        events: w.events.clone(),
        trace: w.trace.clone(),
        checks: w.checks_done,
        outcomes: w.asserted_outcomes,
        wire_checks: w.wire_checks,
        counters: w.counters.clone(),
        outcomes_after_roundtrip: w.outcomes_after_roundtrip,
        off_property: None,
        soft: w.off_soft.borrow().clone(),
    };
    match r {
        Ok(()) => Ok(out),
        Err(Abort::Violation(f)) => Err(f),
        Err(Abort::OffProperty(s)) => {
            out.off_property = Some(s);
            Ok(out)
        }
    }
}

pub struct HistCheck<'a> {
    pub focus: &'a str,
    pub profile: Profile,
    /// non-triviality rule on an executed history
    pub nontrivial: fn(&Outcome) -> bool,
    /// event classes to histogram (generator health)
    pub classes: &'a [&'static str],
    /// classes that must be non-empty for the generator to count as healthy
    pub required: &'a [&'static str],
    pub reps: u32,
    pub stream: u64,
}

pub fn check_case(hc: &HistCheck, case: &HistCase, col: &Collector) -> CheckResult {
    for rep in 0..hc.reps.max(1) {
        let out = execute(hc.focus, case)?;
        if rep > 0 {
            continue;
        }
        col.class_n("ops-executed", case.ops.len() as u64);
        if case.id_offset > 0 {
            col.class("hist:attribute-ids-beyond-127");
        }
        if case.extra_tracers > 0 {
            col.class(&format!("hist:tracing-level-{}", 1 + case.extra_tracers));
        }
        col.class_n("decaps-outcomes-asserted", out.outcomes);
        col.class_n("wire-comparisons", out.wire_checks);
        for (k, v) in &out.counters {
            if k.starts_with("verdict:") || k.starts_with("probe") || *k == "disabled-probe" || *k == "recaps" || k.contains("-checked") || k.contains("-probe") {
                col.class_n(k, *v);
            } else {
                col.class_n(&format!("op:{k}"), *v);
            }
        }
        for s in &out.soft {
            col.off_property(s);
        }
        if let Some(s) = &out.off_property {
            col.off_property(s);
            continue;
        }
        for c in hc.classes {
            if out.events.contains(c) {
                col.class(&format!("hist:{c}"));
            }
        }
        for e in &out.events {
            if e.starts_with("err:") {
                col.class(&format!("hist:{e}"));
            }
        }
        if (hc.nontrivial)(&out) {
            col.class("nontrivial-histories");
            if col.nontrivial(&case) {
                col.sample(|| {
                    json!({
                        "base_structure": case.base.shape(),
                        "features": out.events.iter().collect::<Vec<_>>(),
                        "history": out.trace.iter().take(40).collect::<Vec<_>>(),
                        "decaps_outcomes_asserted": out.outcomes,
                    })
                });
            }
        }
    }
    Ok(())
}

pub fn run_hist(ctx: &Ctx, col: &Collector, hc: &HistCheck, cases: u64) {
    let profile = hc.profile.clone();
    run_cases(&ctx.run_cfg(cases, hc.stream), "history", || case_strategy(&profile), col, |case, col| check_case(hc, case, col));
    for c in hc.required {
        if col.class_count(&format!("hist:{c}")) == 0 && !col.stopped() {
            col.note(format!("generator unhealthy: no history with feature {c}"));
        }
    }
}

pub fn replay_hist(hc: &HistCheck, case: &serde_json::Value, col: &Collector) -> CheckResult {
    let c: HistCase = serde_json::from_value(case.clone()).map_err(|e| Fail::new("replay-format", e.to_string()))?;
    check_case(hc, &c, col)
}

#[allow(dead_code)]
pub fn unused(_: &Covercrypt) {}
