//! C04 — key rotation: refreshed keys follow the master key, stale keys fall behind.

use super::hist::*;
use super::Meta;
use crate::report::{CheckResult, Collector};
use crate::Ctx;

fn profile(thorough: bool) -> Profile {
    Profile {
        rekey: 16,
        keygen: 10,
        refresh: 14,
        encaps: 6,
        encaps_for: 16,
        check: 6,
        roundtrip: 3,
        // "unless the corresponding secret ... was removed from the master key": a few removals
        prune: 2,
        bad_pct: 2,
        min_ops: 1,
        max_ops: if thorough { 50 } else { 25 },
        max_dims: 3,
        max_attrs: 3,
        max_rights: if thorough { 100 } else { 48 },
        ..Profile::zero()
    }
}

fn nontrivial(o: &Outcome) -> bool {
    o.events.contains("partial-rotation")
        && o.events.contains("key-with-uneven-chains")
        && (o.events.contains("enc-under-non-newest-revision") || o.events.contains("enc-under-old-mpk"))
}

const CLASSES: &[&str] = &[
    "rekeyed",
    "partial-rotation",
    "key-with-uneven-chains",
    "enc-under-old-mpk",
    "enc-under-non-newest-revision",
    "refresh-behind:keep",
    "refresh-behind:nokeep",
    "multi-target-enc",
    "roundtrip",
];

pub fn hc(thorough: bool) -> HistCheck<'static> {
    HistCheck {
        focus: "C04",
        profile: profile(thorough),
        nontrivial,
        classes: CLASSES,
        required: &["partial-rotation", "key-with-uneven-chains", "refresh-behind:keep", "refresh-behind:nokeep", "enc-under-old-mpk"],
        reps: 1,
        stream: 4,
    }
}

pub fn run(ctx: &Ctx, col: &Collector) -> Meta {
    let h = hc(ctx.thorough);
    run_hist(ctx, col, &h, ctx.n(6000, 40_000));
    Meta {
        level: "exploration",
        rule: "random histories of rekey over arbitrary policies (hence arbitrary subsets of a key's rights), key generation, refresh with either flag, encapsulation under the latest and earlier public keys (half of them derived from an existing key's rights), a few prunes (removed secrets), round-trips and matrix checkpoints on a random fixed structure; the model tracks the numbered revision of every right in the master key, each public key, user key and encapsulation; serialized chains (length, order, secret bytes) are compared with the model after every rekey / refresh through the independent codec. Non-trivial = history with a partial rotation (a strict subset of some key's rights rekeyed), a refreshed key whose chains have different lengths, and an encapsulation made under a non-newest revision or an earlier public key; distinct by the whole case".into(),
        exhaustive: false,
        assumptions: vec!["oracle = revision-level reference model; a key opens an encapsulation iff it holds one of the targeted (right, revision) pairs".into()],
    }
}

pub fn replay(_kind: &str, case: &serde_json::Value, col: &Collector) -> CheckResult {
    replay_hist(&hc(false), case, col)
}
