//! C07 — encapsulations and ciphertexts are non-malleable.
//!
//! Fault enumeration: every byte position x bit of serialized encapsulations (exhaustive for
//! classic ones and, in the thorough tier, for hybridized ones), structural rearrangements built
//! with the independent codec, splices of two encapsulations, and bit flips / truncations of PKE
//! ciphertexts and encrypted header metadata. Oracle: any mutant that deserializes to an object
//! different from the original must give no secret (Ok(None) or Err) for every key.

use super::Meta;
use crate::ccx::*;
use crate::report::{CheckResult, Collector, Fail};
use crate::runner::{par_for, report_fail, run_cases};
use crate::wire::{self, WXEnc};
use crate::Ctx;
use proptest::prelude::*;
use serde::{Deserialize, Serialize};
use serde_json::json;

pub struct World {
    pub cc: Covercrypt,
    pub mpk: MasterPublicKey,
    /// (policy, key)
    pub keys: Vec<(String, UserSecretKey)>,
    /// the master key (after the two rotations) and its latest public key, for re-encapsulation
    pub msk: MasterSecretKey,
    pub mpk_latest: MasterPublicKey,
}

pub const ENC_POLICIES: &[&str] = &[
    "DPT::FIN",                          // classic, 1 target
    "DPT::FIN || SEC::LOW",              // classic, 2 targets
    "SEC::TOP && DPT::FIN || DPT::FIN || SEC::LOW && DPT::MKG", // classic (mixed), 3 targets
    "SEC::TOP",                          // hybridized, 1 target
    "SEC::TOP || DPT::HR",               // hybridized, 2 targets
    "SEC::TOP || DPT::HR || SEC::TOP && DPT::HR || SEC::LOW && DPT::HR", // hybridized, 4 targets
];

pub fn world() -> Result<World, Fail> {
    let cc = Covercrypt::default();
    let e = |e: Error| Fail::new("fixture-failed", short_err(&e));
    let (mut msk, _) = cc.setup().map_err(e)?;
    msk.access_structure.add_hierarchy("SEC".into()).map_err(e)?;
    msk.access_structure.add_attribute(qa("SEC", "LOW"), hint(false), None).map_err(e)?;
    msk.access_structure.add_attribute(qa("SEC", "TOP"), hint(true), Some("LOW")).map_err(e)?;
    msk.access_structure.add_anarchy("DPT".into()).map_err(e)?;
    msk.access_structure.add_attribute(qa("DPT", "FIN"), hint(false), None).map_err(e)?;
    msk.access_structure.add_attribute(qa("DPT", "HR"), hint(true), None).map_err(e)?;
    msk.access_structure.add_attribute(qa("DPT", "MKG"), hint(false), None).map_err(e)?;
    let mpk = cc.update_msk(&mut msk).map_err(e)?;
    let mut keys = vec![];
    for p in ["SEC::TOP && DPT::FIN", "DPT::HR", "SEC::LOW && DPT::MKG", "*"] {
        let k = cc.generate_user_secret_key(&mut msk, &AccessPolicy::parse(p).map_err(e)?).map_err(e)?;
        keys.push((p.to_string(), k));
    }
    // a key with two revisions
    let _ = cc.rekey(&mut msk, &AccessPolicy::parse("DPT::FIN").map_err(e)?).map_err(e)?;
    let mpk2 = cc.rekey(&mut msk, &AccessPolicy::parse("SEC::TOP").map_err(e)?).map_err(e)?;
    let mut k = keys[0].1.clone();
    cc.refresh_usk(&mut msk, &mut k, true).map_err(e)?;
    keys.push(("SEC::TOP && DPT::FIN (refreshed, 2 revisions)".into(), k));
    Ok(World { cc, mpk, keys, msk, mpk_latest: mpk2 })
}

pub struct Victim {
    pub policy: String,
    pub enc: XEnc,
    pub bytes: Vec<u8>,
    pub secret: Vec<u8>,
    pub w: WXEnc,
    /// which keys open the original
    pub openers: Vec<bool>,
    /// the master key can re-encapsulate the original (control of the recaps oracle)
    pub recaps_ok: bool,
}

pub fn victim(w: &World, policy: &str) -> Result<Victim, Fail> {
    let ap = AccessPolicy::parse(policy).map_err(|e| Fail::new("fixture-failed", short_err(&e)))?;
    let (s, enc) = w.cc.encaps(&w.mpk, &ap).map_err(|e| Fail::new("fixture-failed", short_err(&e)))?;
    let bytes = ser(&enc)?;
    let wx = WXEnc::decode(&bytes).map_err(|e| Fail::new("codec-cannot-decode-xenc", e))?;
    let mut openers = vec![];
    for (_, k) in &w.keys {
        match w.cc.decaps(k, &enc) {
            Ok(Some(x)) if x.to_vec() == s.to_vec() => openers.push(true),
            Ok(None) => openers.push(false),
            Ok(Some(_)) => return Err(Fail::new("wrong-secret", "original encapsulation opened to a different secret".to_string())),
            Err(e) => return Err(Fail::new("decaps-error-on-valid-objects", short_err(&e))),
        }
    }
    let recaps_ok = w.cc.recaps(&w.msk, &w.mpk_latest, &enc).is_ok();
    Ok(Victim { policy: policy.to_string(), enc, bytes, secret: s.to_vec(), w: wx, openers, recaps_ok })
}

/// Present a mutant to every key. `kind` and `component` classify the mutation.
pub fn judge(w: &World, v: &Victim, mutant: &[u8], kind: &str, component: &str, col: &Collector) -> CheckResult {
    col.eval(1);
    let m: XEnc = match de::<XEnc>(mutant) {
        Ok(m) => m,
        Err(_) => {
            col.class("mutants:rejected-at-deserialization");
            return Ok(());
        }
    };
    let equal_object = m == v.enc;
    if equal_object {
        if mutant == &v.bytes[..] {
            return Ok(());
        }
        // different bytes that deserialize to an equal object: the modification of the serialized
        // form went unnoticed (non-canonical encoding accepted) — judged like any other mutant
        col.class("mutants:different-bytes-equal-object");
    }
    col.class("mutants:deserialized");
    // the tag binds the whole encapsulation and the traps are recomputed from the recovered seed:
    // when the tag or a trap was altered nobody can open anything any more, the master key included,
    // so re-encapsulation must fail too (for an altered component it legitimately goes on with the
    // other components, exactly as for a pruned right: not judged)
    let integrity_wide = component == "tag" || component.starts_with("trap") && component != "trap-count" || matches!(kind, "tag-of-other" | "traps-of-other" | "swap-traps" | "drop-trap" | "duplicate-trap");
    if integrity_wide && v.recaps_ok && !equal_object {
        col.class("mutants:presented-to-recaps");
        match std::panic::catch_unwind(std::panic::AssertUnwindSafe(|| with_cc(|cc| cc.recaps(&w.msk, &w.mpk_latest, &m).is_ok()))) {
            Ok(false) => {}
            Ok(true) => {
                return Err(Fail::new(format!("recaps-accepts-mutant:{kind}:{component}"), format!("encapsulation for '{}' ({} bytes, hybridized={}), mutation {kind} on {component}: the master key re-encapsulates it although its tag / traps no longer match", v.policy, v.bytes.len(), v.w.hyb)));
            }
            Err(_) => {
                let (loc, _) = crate::runner::take_panic();
                col.off_property(&format!("panic-in-recaps@{loc} [C14]"));
            }
        }
    }
    for (i, (pol, k)) in w.keys.iter().enumerate() {
        // the same instance first opens the genuine encapsulation with this key (the first of the
        // keys that open it): what it may remember from that must not vouch for the mutant
        if v.openers[i] && v.openers[..i].iter().all(|o| !*o) {
            let _ = std::panic::catch_unwind(std::panic::AssertUnwindSafe(|| with_cc(|cc| cc.decaps(k, &v.enc).map(|o| o.is_some()))));
        }
        let r = match std::panic::catch_unwind(std::panic::AssertUnwindSafe(|| with_cc(|cc| cc.decaps(k, &m)))) {
            Ok(r) => r,
            Err(_) => {
                let (loc, msg) = crate::runner::take_panic();
                col.off_property(&format!("panic-in-decaps@{loc} [C14]"));
                let _ = msg;
                continue;
            }
        };
        match r {
            Ok(None) | Err(_) => {}
            Ok(Some(s)) => {
                let same = s.to_vec() == v.secret;
                return Err(Fail::new(
                    format!("mutant-accepted:{kind}:{component}"),
                    format!(
                        "encapsulation for '{}' ({} bytes, hybridized={}), mutation {kind} on {component}: key '{pol}' obtained {} secret",
                        v.policy,
                        v.bytes.len(),
                        v.w.hyb,
                        if same { "the original" } else { "a different" }
                    ),
                ));
            }
        }
        if v.openers[i] {
            col.nontrivial(&(v.w.hyb, v.w.encs.len(), kind, component, i));
            col.class("mutants:presented-to-authorized-key");
        }
    }
    Ok(())
}

fn component_at(w: &WXEnc, off: usize) -> String {
    let mut pos = wire::TAG;
    if off < pos {
        return "tag".into();
    }
    let l = wire::leb_len(w.c.len() as u64);
    if off < pos + l {
        return "trap-count".into();
    }
    pos += l;
    if off < pos + w.c.len() * wire::POINT {
        return format!("trap{}", (off - pos) / wire::POINT);
    }
    pos += w.c.len() * wire::POINT;
    if off < pos + 1 {
        return "flavour".into();
    }
    pos += 1;
    let l = wire::leb_len(w.encs.len() as u64);
    if off < pos + l {
        return "component-count".into();
    }
    pos += l;
    let per = wire::SEED + if w.hyb { wire::CT } else { 0 };
    let k = (off - pos) / per;
    let inner = (off - pos) % per;
    if w.hyb && inner < wire::CT {
        format!("mlkem-ct{}", k.min(9))
    } else {
        format!("masked-seed{}", k.min(9))
    }
}

fn flip_sweep(ctx: &Ctx, w: &World, v: &Victim, all_bits: bool, col: &Collector) {
    let n = v.bytes.len() as u64;
    par_for(ctx.threads, n, col, |off| {
        let off = off as usize;
        let comp = component_at(&v.w, off);
        let bits: Vec<u8> = if all_bits { (0..8).collect() } else { vec![((off * 7 + ctx.seed as usize) % 8) as u8] };
        for b in bits {
            let mut m = v.bytes.clone();
            m[off] ^= 1 << b;
            if let Err(f) = crate::runner::guarded(|| judge(w, v, &m, "bit-flip", &comp, col)) {
                report_fail(col, "xenc-mutant", f, json!({"policy": v.policy, "mutation": "bit-flip", "offset": off, "bit": b}));
                return;
            }
        }
    });
    col.class_n(if all_bits { "sweep:bytes-all-bits" } else { "sweep:bytes-one-bit" }, n);
}

/// Offsets of bytes that are parsed with structure: counts, the flavour flag, and the first and
/// last byte of every point (encoding tag / sign and canonical-range bits).
fn structural_offsets(w: &WXEnc) -> Vec<usize> {
    let mut out = vec![];
    let mut pos = wire::TAG;
    let l = wire::leb_len(w.c.len() as u64);
    out.extend(pos..pos + l);
    pos += l;
    for _ in 0..w.c.len() {
        out.push(pos);
        out.push(pos + wire::POINT - 1);
        pos += wire::POINT;
    }
    out.push(pos);
    pos += 1;
    let l = wire::leb_len(w.encs.len() as u64);
    out.extend(pos..pos + l);
    out
}

/// Replace bytes by other values (a bit flip only reaches 8 of the 255 other values): every value
/// on the structural bytes, and on every byte outside the ML-KEM ciphertexts when `full`; four
/// values (0x00, 0xff, +1, 0x05) elsewhere.
fn value_sweep(ctx: &Ctx, w: &World, v: &Victim, full: bool, col: &Collector) {
    let structural = structural_offsets(&v.w);
    let n = v.bytes.len() as u64;
    par_for(ctx.threads, n, col, |off| {
        let off = off as usize;
        let comp = component_at(&v.w, off);
        let orig = v.bytes[off];
        let in_ct = comp.starts_with("mlkem-ct");
        let values: Vec<u8> = if structural.contains(&off) || (full && !in_ct) {
            (0..=255u8).filter(|x| *x != orig).collect()
        } else if in_ct && !ctx.thorough {
            // bytes of an ML-KEM ciphertext carry no structure: the bit flips cover them
            vec![]
        } else {
            let mut xs = vec![0x00u8, 0xff, orig.wrapping_add(1), 0x05];
            xs.sort();
            xs.dedup();
            xs.retain(|x| *x != orig);
            xs
        };
        for x in values {
            // single-bit differences are the bit-flip sweep's
            if (x ^ orig).count_ones() == 1 {
                continue;
            }
            let mut m = v.bytes.clone();
            m[off] = x;
            if let Err(f) = crate::runner::guarded(|| judge(w, v, &m, "byte-value", &comp, col)) {
                report_fail(col, "xenc-mutant", f, json!({"policy": v.policy, "mutation": "byte-value", "offset": off, "value": x, "component": comp}));
                return;
            }
        }
    });
    col.class_n(if full { "sweep:bytes-all-values" } else { "sweep:structural-bytes-all-values" }, if full { n } else { structural.len() as u64 });
}

fn truncations(w: &World, v: &Victim, col: &Collector) {
    for n in 0..v.bytes.len() {
        if let Err(f) = crate::runner::guarded(|| judge(w, v, &v.bytes[..n], "truncation", "tail", col)) {
            report_fail(col, "xenc-mutant", f, json!({"policy": v.policy, "mutation": "truncate", "len": n}));
            return;
        }
    }
    // extensions: bytes appended (one byte, a second copy of the whole encapsulation)
    for (k, extra) in [vec![0u8], vec![0xff], v.bytes.clone()].into_iter().enumerate() {
        let mut m = v.bytes.clone();
        m.extend_from_slice(&extra);
        match de::<XEnc>(&m) {
            Err(_) => col.class("extensions:rejected-at-deserialization"),
            Ok(_) => {
                let f = Fail::new("extension-accepted:xenc", format!("encapsulation for '{}' followed by {} more bytes deserializes", v.policy, extra.len()));
                report_fail(col, "xenc-mutant", f, json!({"policy": v.policy, "mutation": "extend", "variant": k}));
                return;
            }
        }
        col.eval(1);
    }
}

/// Structural mutations through the codec.
#[derive(Clone, Debug, Serialize, Deserialize, Hash, PartialEq, Eq)]
pub struct StructCase {
    pub victim: u8,
    pub other: u8,
    /// 0 swap two components, 1 drop component, 2 duplicate component, 3 take tag of other,
    /// 4 take traps of other, 5 take a component of other, 6 flip flavour (re-encode), 7 swap traps,
    /// 8 drop a trap, 9 duplicate a trap, 10 append component of other, 11 replace all components by other's
    pub kind: u8,
    pub a: u8,
    pub b: u8,
}

fn struct_strategy() -> impl Strategy<Value = StructCase> {
    (0u8..6, 0u8..6, 0u8..12, any::<u8>(), any::<u8>()).prop_map(|(victim, other, kind, a, b)| StructCase { victim, other, kind, a, b })
}

const KINDS: &[&str] = &[
    "swap-components", "drop-component", "duplicate-component", "tag-of-other", "traps-of-other", "component-of-other", "flip-flavour", "swap-traps", "drop-trap", "duplicate-trap",
    "append-component-of-other", "all-components-of-other",
];

pub fn struct_mutant(v: &Victim, o: &Victim, c: &StructCase) -> Option<(Vec<u8>, &'static str)> {
    let mut w = v.w.clone();
    let n = w.encs.len();
    let kind = c.kind as usize % KINDS.len();
    match kind {
        0 => {
            if n < 2 {
                return None;
            }
            let i = c.a as usize % n;
            let j = (i + 1 + c.b as usize % (n - 1)) % n;
            w.encs.swap(i, j);
        }
        1 => {
            if n < 1 {
                return None;
            }
            w.encs.remove(c.a as usize % n);
        }
        2 => {
            let x = w.encs[c.a as usize % n].clone();
            w.encs.insert(c.b as usize % (n + 1), x);
        }
        3 => w.tag = o.w.tag.clone(),
        4 => w.c = o.w.c.clone(),
        5 | 10 | 11 => {
            if o.w.hyb != w.hyb || o.w.encs.is_empty() {
                return None;
            }
            if kind == 5 {
                w.encs[c.a as usize % n] = o.w.encs[c.b as usize % o.w.encs.len()].clone();
            } else if kind == 10 {
                w.encs.push(o.w.encs[c.b as usize % o.w.encs.len()].clone());
            } else {
                w.encs = o.w.encs.clone();
            }
        }
        6 => {
            if w.hyb {
                w.hyb = false;
                for e in w.encs.iter_mut() {
                    e.0.clear();
                }
            } else {
                // borrow ML-KEM ciphertexts from a hybridized encapsulation
                if !o.w.hyb || o.w.encs.is_empty() {
                    return None;
                }
                w.hyb = true;
                for (k, e) in w.encs.iter_mut().enumerate() {
                    e.0 = o.w.encs[k % o.w.encs.len()].0.clone();
                }
            }
        }
        7 => {
            if w.c.len() < 2 {
                return None;
            }
            w.c.swap(0, 1);
        }
        8 => {
            w.c.remove(c.a as usize % w.c.len());
        }
        _ => {
            let x = w.c[c.a as usize % w.c.len()].clone();
            w.c.push(x);
        }
    }
    Some((w.encode(), KINDS[kind]))
}

/// An encapsulation with 130 targets (more than 128 components): one bit of a component is
/// flipped, for the components next to every power of two and every 16th one; three narrow keys.
fn wide_victim(col: &Collector) -> CheckResult {
    let cc = Covercrypt::default();
    let e = |e: Error| Fail::new("fixture-failed", short_err(&e));
    let (mut msk, _) = cc.setup().map_err(e)?;
    msk.access_structure.add_anarchy("W".into()).map_err(e)?;
    for i in 0..130 {
        msk.access_structure.add_attribute(qa("W", &format!("w{i}")), hint(false), None).map_err(e)?;
    }
    let mpk = cc.update_msk(&mut msk).map_err(e)?;
    let mut keys = vec![];
    // narrow keys only: the crate does one group operation per (secret, component) pair, so a
    // broadcast key (131 secrets) against 130 components would dominate the whole check
    for p in ["W::w0", "W::w128", "W::w129"] {
        keys.push((p, cc.generate_user_secret_key(&mut msk, &AccessPolicy::parse(p).map_err(e)?).map_err(e)?));
    }
    let pol = (0..130).map(|i| AccessPolicy::Term(qa("W", &format!("w{i}")))).reduce(|a, b| a | b).unwrap();
    let (secret, enc) = cc.encaps(&mpk, &pol).map_err(e)?;
    let bytes = ser(&enc)?;
    let w = WXEnc::decode(&bytes).map_err(|e| Fail::new("codec-cannot-decode-xenc", e))?;
    if w.encs.len() != 130 {
        return Err(Fail::new("fixture-failed", format!("{} components", w.encs.len())));
    }
    for (p, k) in &keys {
        if !matches!(cc.decaps(k, &enc), Ok(Some(s)) if s == secret) {
            return Err(Fail::new("authorized-key-cannot-open", format!("wide encapsulation, key {p}")));
        }
    }
    // components next to every power of two up to 128 and every 16th one
    for comp in (0..130usize).filter(|c| c % 16 == 0 || [1usize, 2, 31, 32, 33, 63, 64, 65, 126, 127, 128, 129].contains(c)) {
        let mut w2 = w.clone();
        let pos = (comp * 7) % w2.encs[comp].1.len();
        w2.encs[comp].1[pos] ^= 1 << (comp % 8);
        let Ok(m) = de::<XEnc>(&w2.encode()) else { continue };
        col.eval(1);
        col.class("wide-victim:component-mutants");
        for (p, k) in &keys {
            if let Ok(Some(s)) = cc.decaps(k, &m) {
                return Err(Fail::new(
                    "mutant-accepted:bit-flip:wide-component",
                    format!("encapsulation with 130 targets, one bit of component {comp} flipped: key '{p}' obtained {} secret", if s == secret { "the original" } else { "a different" }),
                ));
            }
        }
        col.nontrivial(&("wide", comp));
    }
    Ok(())
}

pub struct Fixture {
    pub world: World,
    pub victims: Vec<Victim>,
}

pub fn fixture() -> Result<Fixture, Fail> {
    let world = world()?;
    let mut victims = vec![];
    for p in ENC_POLICIES {
        victims.push(victim(&world, p)?);
    }
    Ok(Fixture { world, victims })
}

pub fn check_struct(fx: &Fixture, c: &StructCase, col: &Collector) -> CheckResult {
    let v = &fx.victims[c.victim as usize % fx.victims.len()];
    let o = &fx.victims[c.other as usize % fx.victims.len()];
    if std::ptr::eq(v, o) && matches!(c.kind % 12, 3 | 4 | 5 | 10 | 11) {
        return Ok(());
    }
    let Some((bytes, kind)) = struct_mutant(v, o, c) else { return Ok(()) };
    col.class(&format!("struct:{kind}"));
    // judge() counts the evaluation itself
    judge(&fx.world, v, &bytes, kind, if v.w.hyb { "hybridized" } else { "classic" }, col)
}

// ------------------------------------------------------------------ PKE / header metadata

fn symmetric_sweep(fx: &Fixture, col: &Collector) -> CheckResult {
    let w = &fx.world;
    for (pi, pol) in ["DPT::FIN", "SEC::TOP"].iter().enumerate() {
        let ap = AccessPolicy::parse(pol).unwrap();
        for ptx_len in [0usize, 1, 16, 33] {
            let ptx = vec![0x5au8; ptx_len];
            let (enc, body) = pke_encrypt(&w.cc, &w.mpk, &ap, &ptx).map_err(|e| Fail::new("fixture-failed", short_err(&e)))?;
            let key = &w.keys[if pi == 0 { 0 } else { 0 }].1;
            match pke_decrypt(&w.cc, key, &(enc.clone(), body.clone())) {
                Ok(Some(p)) if p == ptx => {}
                _ => return Err(Fail::new("pke-authorized-path-failed", format!("policy {pol}, {ptx_len} bytes"))),
            }
            for off in 0..body.len() {
                for bit in 0..8 {
                    let mut b = body.clone();
                    b[off] ^= 1 << bit;
                    col.eval(1);
                    let comp = if off < 12 { "nonce" } else if off >= body.len() - 16 { "gcm-tag" } else { "body" };
                    match pke_decrypt(&w.cc, key, &(enc.clone(), b)) {
                        Err(_) => {
                            col.nontrivial(&("pke", pi, ptx_len, comp, off, bit));
                            col.class("pke-mutants:rejected");
                        }
                        Ok(x) => {
                            return Err(Fail::new(format!("pke-mutant-accepted:{comp}"), format!("PKE ciphertext ({ptx_len}-byte plaintext), bit {bit} of byte {off} ({comp}) flipped: decrypt returned Ok({})", if x.is_some() { "Some" } else { "None" })));
                        }
                    }
                }
            }
            // header metadata, with and without authentication data
            for aad in [None, Some(&b"context"[..])] {
                let (_s, h) = EncryptedHeader::generate(&w.cc, &w.mpk, &ap, Some(&ptx), aad).map_err(|e| Fail::new("fixture-failed", short_err(&e)))?;
                let em = h.encrypted_metadata.clone().unwrap();
                for off in 0..em.len() {
                    for bit in 0..8 {
                        let mut b = em.clone();
                        b[off] ^= 1 << bit;
                        col.eval(1);
                        let h2 = EncryptedHeader { encapsulation: h.encapsulation.clone(), encrypted_metadata: Some(b) };
                        match h2.decrypt(&w.cc, key, aad) {
                            Err(_) => {
                                col.nontrivial(&("hdr", pi, ptx_len, aad.is_some(), off, bit));
                                col.class("header-metadata-mutants:rejected");
                            }
                            Ok(x) => {
                                return Err(Fail::new("header-metadata-mutant-accepted", format!("encrypted metadata ({ptx_len} bytes), bit {bit} of byte {off} flipped: decrypt returned Ok({})", if x.is_some() { "Some" } else { "None" })));
                            }
                        }
                    }
                }
                // the serialized header with bytes appended (one byte, a second header) must not be
                // read back as the genuine header
                if let Ok(hb) = ser(&h) {
                    for extra in [vec![0u8], vec![0x2a, 0x2a], hb.clone()] {
                        let mut m = hb.clone();
                        m.extend_from_slice(&extra);
                        col.eval(1);
                        if let Ok(h5) = de::<EncryptedHeader>(&m) {
                            if let Ok(Some(_)) = h5.decrypt(&w.cc, key, aad) {
                                return Err(Fail::new("header-extension-accepted", format!("serialized header ({} bytes) followed by {} more bytes deserializes and decrypts", hb.len(), extra.len())));
                            }
                        }
                        col.class("header-extensions:rejected");
                    }
                }
                // the encapsulation of a header is covered by the XEnc sweeps; one spot check: swap encapsulations of two headers
                let (_s2, h3) = EncryptedHeader::generate(&w.cc, &w.mpk, &ap, Some(&ptx), aad).map_err(|e| Fail::new("fixture-failed", short_err(&e)))?;
                let h4 = EncryptedHeader { encapsulation: h3.encapsulation, encrypted_metadata: h.encrypted_metadata.clone() };
                col.eval(1);
                match h4.decrypt(&w.cc, key, aad) {
                    Err(_) => col.class("header-splice:rejected"),
                    Ok(x) => return Err(Fail::new("header-splice-accepted", format!("metadata of one header under the encapsulation of another: Ok({})", if x.is_some() { "Some" } else { "None" }))),
                }
            }
        }
    }
    Ok(())
}

pub fn run(ctx: &Ctx, col: &Collector) -> Meta {
    let fx = match fixture() {
        Ok(f) => f,
        Err(f) => {
            report_fail(col, "xenc-mutant", f, json!({}));
            return meta(ctx);
        }
    };
    for (i, v) in fx.victims.iter().enumerate() {
        col.sample(|| json!({"victim": v.policy, "bytes": v.bytes.len(), "hybridized": v.w.hyb, "targets": v.w.encs.len(), "keys_that_open_it": fx.world.keys.iter().zip(v.openers.iter()).filter(|(_, o)| **o).map(|(k, _)| k.0.clone()).collect::<Vec<_>>()}));
        let exhaustive_bits = !v.w.hyb || ctx.thorough || i == 3;
        flip_sweep(ctx, &fx.world, v, exhaustive_bits, col);
        if col.stopped() {
            return meta(ctx);
        }
        value_sweep(ctx, &fx.world, v, ctx.thorough && (!v.w.hyb || i == 3), col);
        if col.stopped() {
            return meta(ctx);
        }
        if !v.w.hyb || ctx.thorough {
            truncations(&fx.world, v, col);
        }
    }
    if let Err(f) = crate::runner::guarded(|| symmetric_sweep(&fx, col)) {
        report_fail(col, "symmetric", f, json!({}));
    }
    if let Err(f) = crate::runner::guarded(|| wide_victim(col)) {
        report_fail(col, "wide-victim", f, json!({}));
    }
    run_cases(&ctx.run_cfg(ctx.n(6000, 200_000), 1), "xenc-struct", struct_strategy, col, |c, col| check_struct(&fx, c, col));
    for k in KINDS {
        if col.class_count(&format!("struct:{k}")) == 0 && !col.stopped() {
            col.note(format!("generator unhealthy: class struct:{k} empty"));
        }
    }
    meta(ctx)
}

fn meta(ctx: &Ctx) -> Meta {
    Meta {
        level: "fault_enumeration",
        rule: format!(
            "victims: encapsulations for {:?} (classic 1-3 targets, hybridized 1-4 targets) presented to 5 keys (authorized, unauthorized, broadcast, two-revision); faults: every byte x every bit of the serialized classic encapsulations and of one hybridized one ({}), every other value of the structural bytes (counts, flavour flag, first and last byte of every point) and four values of every other byte outside the ML-KEM ciphertexts (thorough tier: every value of every byte outside them, four values inside), every truncation, appended bytes (also behind a serialized header), one bit of 20 components (around every power of two) of a 130-target encapsulation, generated structural rearrangements through the independent codec ({:?}), every bit of PKE ciphertexts and encrypted header metadata for 4 plaintext lengths, header splices. A mutant that deserializes to an object != the original must yield no secret for every key, each key having just opened the genuine encapsulation on the same instance; a mutant of the tag or of a trap must also be refused by re-encapsulation with the master key. Non-trivial = mutant that deserializes and is presented to an authorized key; distinct by (flavour, #targets, mutation kind, component hit, key)",
            ENC_POLICIES,
            if ctx.thorough { "all hybridized victims x every bit in this tier" } else { "other hybridized victims: every byte x one bit in this tier" },
            KINDS
        ),
        exhaustive: true,
        assumptions: vec!["checks what decaps / decrypt return; the strength of SHA-3, ML-KEM and AES-GCM is assumed".into(), "a panic in decaps on a mutant is counted off-property (it belongs to C14)".into()],
    }
}

pub fn replay(kind: &str, case: &serde_json::Value, col: &Collector) -> CheckResult {
    let fx = fixture()?;
    match kind {
        "xenc-struct" => {
            let c: StructCase = serde_json::from_value(case.clone()).map_err(|e| Fail::new("replay-format", e.to_string()))?;
            check_struct(&fx, &c, col)
        }
        "xenc-mutant" => {
            let pol = case["policy"].as_str().unwrap_or(ENC_POLICIES[0]);
            let v = fx.victims.iter().find(|v| v.policy == pol).ok_or_else(|| Fail::new("replay-format", "policy"))?;
            match case["mutation"].as_str() {
                Some("bit-flip") => {
                    let off = case["offset"].as_u64().unwrap_or(0) as usize % v.bytes.len();
                    let bit = case["bit"].as_u64().unwrap_or(0) as u8 % 8;
                    let mut m = v.bytes.clone();
                    m[off] ^= 1 << bit;
                    judge(&fx.world, v, &m, "bit-flip", &component_at(&v.w, off), col)
                }
                Some("byte-value") => {
                    // victims are made afresh for every run: whether a value is accepted can
                    // depend on the bytes of the point it lands on, so try several encapsulations
                    let comp = case["component"].as_str().unwrap_or("").to_string();
                    let x = case["value"].as_u64().unwrap_or(0) as u8;
                    for _ in 0..12 {
                        let v = victim(&fx.world, pol)?;
                        for off in 0..v.bytes.len() {
                            if component_at(&v.w, off) == comp && structural_offsets(&v.w).contains(&off) || off == case["offset"].as_u64().unwrap_or(0) as usize {
                                let mut m = v.bytes.clone();
                                if m[off] != x {
                                    m[off] = x;
                                    judge(&fx.world, &v, &m, "byte-value", &comp, col)?;
                                }
                            }
                        }
                    }
                    Ok(())
                }
                Some("extend") => {
                    let mut m = v.bytes.clone();
                    m.push(0);
                    match de::<XEnc>(&m) {
                        Ok(_) => Err(Fail::new("extension-accepted:xenc", "an appended byte is accepted".to_string())),
                        Err(_) => Ok(()),
                    }
                }
                Some("truncate") => {
                    let n = case["len"].as_u64().unwrap_or(0) as usize % v.bytes.len();
                    judge(&fx.world, v, &v.bytes[..n], "truncation", "tail", col)
                }
                _ => Err(Fail::new("replay-format", "mutation")),
            }
        }
        "symmetric" => symmetric_sweep(&fx, col),
        "wide-victim" => wide_victim(col),
        k => Err(Fail::new("replay-format", format!("unknown kind {k}"))),
    }
}
