//! C14 — deserializing or using untrusted bytes never crashes, hangs or over-allocates.
//!
//! Every input is processed in an isolated child (`worker`): result must be a value or an error —
//! no panic, no abort, no signal — within a CPU and memory envelope proportional to the input.

use super::Meta;
use crate::report::{CheckResult, Collector, Fail};
use crate::runner::{new_runner, report_fail};
use crate::wire::{self, leb_encode};
use crate::worker::{Child, Outcome, Reply};
use crate::Ctx;
use proptest::prelude::*;
use proptest::strategy::ValueTree;
use serde_json::json;
use std::collections::BTreeMap;
use std::sync::Mutex;

pub const CPU_LIMIT_S: f64 = 5.0;

pub fn envelope_cpu_us(len: usize, units: u64) -> u64 {
    150_000 + 60 * len as u64 + 3_000 * units
}
/// Inputs that are only parsed and inspected (kinds `*-parse`): no decapsulation work is done, so
/// the allowance per byte is much smaller — 150 ms + 0.4 us/byte, plus 60 us for every
/// elliptic-curve point the input makes the reader decompress (about 22 us each on P-256).
pub fn envelope_parse_cpu_us(len: usize, points: u64) -> u64 {
    150_000 + (4 * len as u64) / 10 + 60 * points
}
pub fn envelope_peak(len: usize) -> u64 {
    (2 << 20) + 96 * len as u64
}
pub fn envelope_big(len: usize) -> u64 {
    (512 << 10) + 24 * len as u64
}

pub const BOUNDARY: &[u64] = &[0, 1, 2, 127, 128, 255, 256, 16383, 16384, (1 << 32) - 1, 1 << 32, (1 << 62), (1 << 63) - 1, 1 << 63, u64::MAX];

#[derive(Clone, Debug)]
pub struct Input {
    pub kind: String,
    pub bytes: Vec<u8>,
    pub class: String,
    pub changes_count: bool,
    /// elliptic-curve points a well-formed reading of the input has to decode (crafted inputs
    /// only; decompressing a point costs tens of microseconds on P-256)
    pub points: u64,
}

fn judge(inp: &Input, out: &Outcome) -> Result<Option<Reply>, Fail> {
    let len = inp.bytes.len();
    match out {
        Outcome::Reply(r) => {
            if r.status.starts_with("panic@") {
                return Err(Fail::new(r.status.clone(), format!("{} input ({} bytes, {}): panic at {}: {}", inp.kind, len, inp.class, &r.status[6..], r.detail)));
            }
            if r.status != "ok" && r.status != "err" {
                return Err(Fail::new("worker-protocol", format!("unexpected reply {:?}", r)));
            }
            if inp.kind.ends_with("-parse") && r.cpu_us > envelope_parse_cpu_us(len, inp.points) {
                return Err(Fail::new("cpu-envelope-exceeded", format!("{} input ({} bytes, {} points, {}): {} us of CPU to parse and inspect, envelope {}", inp.kind, len, inp.points, inp.class, r.cpu_us, envelope_parse_cpu_us(len, inp.points))));
            }
            if r.cpu_us > envelope_cpu_us(len, r.units) {
                return Err(Fail::new("cpu-envelope-exceeded", format!("{} input ({} bytes, {}): {} us of CPU for {} work units, envelope {}", inp.kind, len, inp.class, r.cpu_us, r.units, envelope_cpu_us(len, r.units))));
            }
            if r.peak > envelope_peak(len) {
                return Err(Fail::new("memory-envelope-exceeded", format!("{} input ({} bytes, {}): peak {} bytes allocated, envelope {}", inp.kind, len, inp.class, r.peak, envelope_peak(len))));
            }
            if r.big > envelope_big(len) {
                return Err(Fail::new("single-allocation-envelope-exceeded", format!("{} input ({} bytes, {}): one allocation of {} bytes, envelope {}", inp.kind, len, inp.class, r.big, envelope_big(len))));
            }
            Ok(Some(r.clone()))
        }
        Outcome::Died(how) => {
            let sig = if how.contains("memory allocation of") {
                "abort:memory-allocation-failed".to_string()
            } else if how.contains("capacity overflow") {
                "abort:capacity-overflow".to_string()
            } else if how.contains("stack overflow") {
                "abort:stack-overflow".to_string()
            } else {
                "abort:process-died".to_string()
            };
            Err(Fail::new(sig, format!("{} input ({} bytes, {}): worker process died: {}", inp.kind, len, inp.class, how)))
        }
        Outcome::Hang(us) => Err(Fail::new("hang", format!("{} input ({} bytes, {}): no answer after {} us of CPU time", inp.kind, len, inp.class, us))),
        Outcome::Stall => Err(Fail::new("infra-stall", "worker stalled without using CPU".to_string())),
    }
}

/// Deterministic mutants of one valid serialization.
fn enumerate(kind: &str, seed: &[u8], thorough: bool, out: &mut Vec<Input>) {
    let n = seed.len();
    let small = n <= 700;
    // truncations
    let stride = if small || thorough { 1 } else { 13 };
    let mut l = 0;
    while l < n {
        out.push(Input { kind: kind.into(), bytes: seed[..l].to_vec(), class: "truncation".into(), changes_count: false, points: 0 });
        l += if l < 300 { 1 } else { stride };
    }
    // extension
    let mut e = seed.to_vec();
    e.push(0);
    out.push(Input { kind: kind.into(), bytes: e, class: "extension".into(), changes_count: false, points: 0 });
    // single-byte corruptions
    let bstride = if small { 1 } else if thorough { 3 } else { 29 };
    let mut off = 0;
    while off < n {
        for (name, f) in [("xor01", 0u8), ("xor80", 1), ("set00", 2), ("setff", 3)] {
            let mut b = seed.to_vec();
            match f {
                0 => b[off] ^= 0x01,
                1 => b[off] ^= 0x80,
                2 => b[off] = 0x00,
                _ => b[off] = 0xff,
            }
            if b != seed {
                out.push(Input { kind: kind.into(), bytes: b, class: format!("byte-{name}"), changes_count: false, points: 0 });
            }
        }
        off += if off < 200 { 1 } else { bstride };
    }
    // every count / length / flag field replaced by boundary values
    if let Ok(fields) = wire::fields_of(kind, seed) {
        let mut seen_kinds: BTreeMap<&str, usize> = BTreeMap::new();
        for f in &fields {
            let k = seen_kinds.entry(f.kind).or_insert(0);
            *k += 1;
            // all fields for small objects, the first 6 of each kind otherwise
            if !small && !thorough && *k > 6 {
                continue;
            }
            let mut vals: Vec<u64> = BOUNDARY.to_vec();
            vals.push(f.value.wrapping_add(1));
            vals.push(f.value.wrapping_sub(1));
            vals.push(f.value.wrapping_mul(2));
            for v in vals {
                if v == f.value {
                    continue;
                }
                let mut b = seed[..f.off].to_vec();
                leb_encode(v, &mut b);
                b.extend_from_slice(&seed[f.off + f.len..]);
                let vc = if v == 0 { "0".to_string() } else if v < 128 { "small".into() } else if v < (1 << 32) { "medium".into() } else { "huge".into() };
                out.push(Input { kind: kind.into(), bytes: b, class: format!("field:{}={vc}", f.kind), changes_count: true, points: 0 });
            }
            // over-long LEB128 encoding of the same value and an unterminated one
            let mut b = seed[..f.off].to_vec();
            b.extend_from_slice(&[0x80 | (f.value as u8 & 0x7f), 0x80, 0x80, 0x80, 0x80, 0x80, 0x80, 0x80, 0x80, 0x80, 0x80, 0x00]);
            b.extend_from_slice(&seed[f.off + f.len..]);
            out.push(Input { kind: kind.into(), bytes: b, class: format!("field:{}=overlong-leb", f.kind), changes_count: true, points: 0 });
        }
    }
    // zero-element variants through the codec
    match kind {
        "xenc" => {
            if let Ok(w) = wire::WXEnc::decode(seed) {
                let mut a = w.clone();
                a.c.clear();
                out.push(Input { kind: kind.into(), bytes: a.encode(), class: "zero:no-traps".into(), changes_count: true, points: 0 });
                let mut a = w.clone();
                a.encs.clear();
                out.push(Input { kind: kind.into(), bytes: a.encode(), class: "zero:no-components".into(), changes_count: true, points: 0 });
                let mut a = w.clone();
                a.c.truncate(1);
                out.push(Input { kind: kind.into(), bytes: a.encode(), class: "zero:one-trap".into(), changes_count: true, points: 0 });
                let mut a = w.clone();
                let x = a.encs[0].clone();
                for _ in 0..40 {
                    a.encs.push(x.clone());
                }
                out.push(Input { kind: kind.into(), bytes: a.encode(), class: "many-components".into(), changes_count: true, points: 0 });
            }
        }
        "header" => {
            if let Ok(w) = wire::WHeader::decode(seed) {
                let mut a = w.clone();
                a.enc.c.clear();
                out.push(Input { kind: kind.into(), bytes: a.encode(), class: "zero:no-traps".into(), changes_count: true, points: 0 });
                let mut a = w.clone();
                a.meta.clear();
                out.push(Input { kind: kind.into(), bytes: a.encode(), class: "zero:no-metadata".into(), changes_count: true, points: 0 });
                for n in 0..w.meta.len().min(30) {
                    let mut a = w.clone();
                    a.meta.truncate(n);
                    out.push(Input { kind: kind.into(), bytes: a.encode(), class: "metadata-truncated".into(), changes_count: true, points: 0 });
                }
            }
        }
        "usk" => {
            if let Ok(w) = wire::WUsk::decode(seed) {
                let mut a = w.clone();
                a.id.clear();
                out.push(Input { kind: kind.into(), bytes: a.encode(), class: "zero:no-markers".into(), changes_count: true, points: 0 });
                let mut a = w.clone();
                a.rights.clear();
                out.push(Input { kind: kind.into(), bytes: a.encode(), class: "zero:no-rights".into(), changes_count: true, points: 0 });
                let mut a = w.clone();
                a.ps.clear();
                out.push(Input { kind: kind.into(), bytes: a.encode(), class: "zero:no-tracing-points".into(), changes_count: true, points: 0 });
                let mut a = w.clone();
                for r in a.rights.iter_mut() {
                    r.1.clear();
                }
                out.push(Input { kind: kind.into(), bytes: a.encode(), class: "zero:empty-chains".into(), changes_count: true, points: 0 });
                let mut a = w.clone();
                a.rights.truncate(1);
                a.rights[0].1.truncate(1);
                a.signature = None;
                out.push(Input { kind: kind.into(), bytes: a.encode(), class: "zero:unsigned-single".into(), changes_count: true, points: 0 });
                let mut a = w.clone();
                a.id.truncate(1);
                out.push(Input { kind: kind.into(), bytes: a.encode(), class: "zero:one-marker".into(), changes_count: true, points: 0 });
            }
        }
        "mpk" => {
            if let Ok(w) = wire::WMpk::decode(seed) {
                let mut a = w.clone();
                a.tpk.clear();
                out.push(Input { kind: kind.into(), bytes: a.encode(), class: "zero:no-tracing-points".into(), changes_count: true, points: 0 });
                let mut a = w.clone();
                a.keys.clear();
                out.push(Input { kind: kind.into(), bytes: a.encode(), class: "zero:no-rights".into(), changes_count: true, points: 0 });
                let mut a = w.clone();
                a.structure.dims.clear();
                out.push(Input { kind: kind.into(), bytes: a.encode(), class: "zero:empty-structure".into(), changes_count: true, points: 0 });
            }
        }
        "msk" => {
            if let Ok(w) = wire::WMsk::decode(seed) {
                let mut a = w.clone();
                a.tracers.clear();
                out.push(Input { kind: kind.into(), bytes: a.encode(), class: "zero:no-tracers".into(), changes_count: true, points: 0 });
                let mut a = w.clone();
                a.rights.clear();
                out.push(Input { kind: kind.into(), bytes: a.encode(), class: "zero:no-rights".into(), changes_count: true, points: 0 });
                let mut a = w.clone();
                for r in a.rights.iter_mut() {
                    r.1.clear();
                }
                out.push(Input { kind: kind.into(), bytes: a.encode(), class: "zero:empty-chains".into(), changes_count: true, points: 0 });
                let mut a = w.clone();
                a.users.push(vec![]);
                out.push(Input { kind: kind.into(), bytes: a.encode(), class: "zero:user-without-markers".into(), changes_count: true, points: 0 });
                let mut a = w.clone();
                a.signing_key = None;
                out.push(Input { kind: kind.into(), bytes: a.encode(), class: "zero:no-signing-key".into(), changes_count: true, points: 0 });
                let mut a = w.clone();
                a.structure.dims.clear();
                out.push(Input { kind: kind.into(), bytes: a.encode(), class: "zero:empty-structure".into(), changes_count: true, points: 0 });
            }
        }
        "structure" => {
            if let Ok(w) = wire::WStructure::decode(seed) {
                let mut a = w.clone();
                a.dims.clear();
                out.push(Input { kind: kind.into(), bytes: a.encode(), class: "zero:no-dimensions".into(), changes_count: true, points: 0 });
                let mut a = w.clone();
                for d in a.dims.iter_mut() {
                    d.attrs.clear();
                }
                out.push(Input { kind: kind.into(), bytes: a.encode(), class: "zero:no-attributes".into(), changes_count: true, points: 0 });
                let mut a = w.clone();
                a.next_id = Some(u64::MAX);
                a.version = 1;
                out.push(Input { kind: kind.into(), bytes: a.encode(), class: "next-id-max".into(), changes_count: true, points: 0 });
                let mut a = w.clone();
                if let Some(d) = a.dims.first_mut() {
                    if let Some(at) = d.attrs.first_mut() {
                        at.id = u64::MAX;
                    }
                }
                out.push(Input { kind: kind.into(), bytes: a.encode(), class: "attribute-id-max".into(), changes_count: true, points: 0 });
                let mut a = w.clone();
                a.version = 0;
                a.next_id = None;
                out.push(Input { kind: kind.into(), bytes: a.encode(), class: "version-v1".into(), changes_count: true, points: 0 });
                let mut a = w.clone();
                if let Some(d) = a.dims.first().cloned() {
                    a.dims.push(d);
                }
                out.push(Input { kind: kind.into(), bytes: a.encode(), class: "duplicate-dimension".into(), changes_count: true, points: 0 });
            }
        }
        _ => {}
    }
}

#[derive(Clone, Debug)]
enum Mut {
    Random(Vec<u8>),
    /// splice: prefix of seed a (fraction), suffix of seed b
    Splice(u8, u16, u8, u16),
    /// overwrite `n` bytes at fraction `at` with value
    Smash(u8, u16, u8, u8),
    /// insert bytes
    Insert(u8, u16, Vec<u8>),
    /// remove a range
    Remove(u8, u16, u8),
}

fn mut_strategy() -> impl Strategy<Value = Mut> {
    prop_oneof![
        2 => proptest::collection::vec(any::<u8>(), 0..200).prop_map(Mut::Random),
        2 => (any::<u8>(), any::<u16>(), any::<u8>(), any::<u16>()).prop_map(|(a, x, b, y)| Mut::Splice(a, x, b, y)),
        3 => (any::<u8>(), any::<u16>(), 1u8..40, any::<u8>()).prop_map(|(a, x, n, v)| Mut::Smash(a, x, n, v)),
        2 => (any::<u8>(), any::<u16>(), proptest::collection::vec(any::<u8>(), 1..20)).prop_map(|(a, x, v)| Mut::Insert(a, x, v)),
        2 => (any::<u8>(), any::<u16>(), 1u8..60).prop_map(|(a, x, n)| Mut::Remove(a, x, n)),
    ]
}

fn apply(m: &Mut, seeds: &[(String, Vec<u8>)], kinds: &[&str], i: u64) -> Input {
    let at = |s: &Vec<u8>, x: u16| (x as usize * (s.len() + 1)) >> 16;
    match m {
        Mut::Random(v) => Input { kind: kinds[(i as usize) % kinds.len()].to_string(), bytes: v.clone(), class: "random-bytes".into(), changes_count: false, points: 0 },
        Mut::Splice(a, x, b, y) => {
            let (ka, sa) = &seeds[*a as usize % seeds.len()];
            let (_, sb) = &seeds[*b as usize % seeds.len()];
            let mut v = sa[..at(sa, *x)].to_vec();
            v.extend_from_slice(&sb[at(sb, *y)..]);
            Input { kind: ka.clone(), bytes: v, class: "splice".into(), changes_count: false, points: 0 }
        }
        Mut::Smash(a, x, n, val) => {
            let (ka, sa) = &seeds[*a as usize % seeds.len()];
            let mut v = sa.clone();
            let p = at(sa, *x).min(v.len().saturating_sub(1));
            for j in p..(p + *n as usize).min(v.len()) {
                v[j] = *val;
            }
            Input { kind: ka.clone(), bytes: v, class: "smash".into(), changes_count: false, points: 0 }
        }
        Mut::Insert(a, x, ins) => {
            let (ka, sa) = &seeds[*a as usize % seeds.len()];
            let p = at(sa, *x);
            let mut v = sa[..p].to_vec();
            v.extend_from_slice(ins);
            v.extend_from_slice(&sa[p..]);
            Input { kind: ka.clone(), bytes: v, class: "insert".into(), changes_count: false, points: 0 }
        }
        Mut::Remove(a, x, n) => {
            let (ka, sa) = &seeds[*a as usize % seeds.len()];
            let p = at(sa, *x).min(sa.len());
            let q = (p + *n as usize).min(sa.len());
            let mut v = sa[..p].to_vec();
            v.extend_from_slice(&sa[q..]);
            Input { kind: ka.clone(), bytes: v, class: "remove".into(), changes_count: false, points: 0 }
        }
    }
}

const KINDS: &[&str] = &["xenc", "header", "usk", "mpk", "msk", "structure", "cleartext"];

struct Found {
    map: Mutex<BTreeMap<String, (Fail, Input)>>,
}

fn handle(col: &Collector, found: &Found, inp: &Input, out: &Outcome, calib: &Mutex<(f64, f64, f64)>) -> bool {
    // returns false when the child must be respawned
    col.eval(1);
    col.class(&format!("kind:{}", inp.kind));
    {
        // mutation class histogram (generator health): field classes are folded by kind of value
        let c = inp.class.split('=').next().unwrap_or("").split(':').next().unwrap_or("");
        let c = if inp.class.starts_with("field:") { format!("field={}", inp.class.rsplit('=').next().unwrap_or("")) } else if inp.class.starts_with("zero:") { inp.class.clone() } else { c.to_string() };
        col.class(&format!("mut:{c}"));
    }
    match judge(inp, out) {
        Ok(Some(r)) => {
            if r.status == "ok" {
                col.class("parsed-and-used");
                col.class(&format!("parsed:{}", inp.kind));
            } else {
                col.class("rejected-with-error");
            }
            if inp.changes_count || r.status == "ok" {
                let vc = inp.class.clone();
                if col.nontrivial(&(inp.kind.clone(), vc, r.status == "ok")) && r.status == "ok" {
                    col.sample(|| json!({"kind": inp.kind, "class": inp.class, "len": inp.bytes.len(), "status": r.status, "use": r.detail, "peak_bytes": r.peak, "cpu_us": r.cpu_us}));
                }
            }
            let len = inp.bytes.len().max(1) as f64;
            let mut c = calib.lock().unwrap();
            c.0 = c.0.max(r.cpu_us as f64 / envelope_cpu_us(inp.bytes.len(), r.units) as f64);
            c.1 = c.1.max(r.peak as f64 / envelope_peak(inp.bytes.len()) as f64);
            c.2 = c.2.max(r.big as f64 / envelope_big(inp.bytes.len()) as f64);
            let _ = len;
            true
        }
        Ok(None) => true,
        Err(f) => {
            if f.signature == "infra-stall" {
                col.note("generator unhealthy: worker stalled without using CPU (inconclusive)");
                return false;
            }
            let died = matches!(out, Outcome::Died(_) | Outcome::Hang(_) | Outcome::Stall);
            if col.is_known(&f.signature) {
                col.known_hit(&f.signature, &f.message);
            } else {
                let mut m = found.map.lock().unwrap();
                let n = m.len();
                m.entry(f.signature.clone()).or_insert((f, inp.clone()));
                if n >= 8 {
                    col.stop.store(true, std::sync::atomic::Ordering::SeqCst);
                }
            }
            !died
        }
    }
}

pub fn run(ctx: &Ctx, col: &Collector) -> Meta {
    let found = Found { map: Mutex::new(BTreeMap::new()) };
    let calib = Mutex::new((0.0f64, 0.0f64, 0.0f64));
    let random_per_thread = ctx.n(2500, 120_000) / ctx.threads as u64 + 1;
    std::thread::scope(|s| {
        for t in 0..ctx.threads {
            let found = &found;
            let calib = &calib;
            s.spawn(move || {
                let mut child = match Child::spawn() {
                    Ok(c) => c,
                    Err(e) => {
                        col.note(format!("generator unhealthy: cannot spawn worker: {e}"));
                        return;
                    }
                };
                // deterministic enumeration, partitioned over threads by index
                let mut inputs = vec![];
                for (k, b) in child.seeds.clone() {
                    // calibration: the valid object itself
                    inputs.push(Input { kind: k.clone(), bytes: b.clone(), class: "valid".into(), changes_count: false, points: 0 });
                    enumerate(&k, &b, ctx.thorough, &mut inputs);
                }
                // crafted: structures with many one-attribute dimensions (the number of rights is
                // exponential in the number of dimensions; reading must not enumerate them),
                // alone and inside a public key and a master key; parsed and inspected only
                for (k, b) in child.seeds.clone() {
                    for n in [10usize, 14, 18, 22, 26] {
                        let dims: Vec<wire::WDim> = (0..n).map(|i| wire::WDim { name: format!("d{i}"), ordered: (i % 2) as u64, attrs: vec![wire::WAttr { name: "a".into(), id: i as u64, hint: (i % 3 == 0) as u64, status: 1 }] }).collect();
                        let st = wire::WStructure { version: 1, next_id: Some(n as u64), dims };
                        let bytes = match k.as_str() {
                            "structure" => Some(st.encode()),
                            "mpk" => wire::WMpk::decode(&b).ok().map(|mut w| {
                                w.structure = st.clone();
                                w.encode()
                            }),
                            "msk" => wire::WMsk::decode(&b).ok().map(|mut w| {
                                w.structure = st.clone();
                                w.encode()
                            }),
                            _ => None,
                        };
                        if let Some(bytes) = bytes {
                            inputs.push(Input { kind: format!("{k}-parse"), bytes, class: "crafted:many-dimensions".into(), changes_count: true, points: 0 });
                        }
                    }
                }
                // crafted: a well-formed user key / public key with tens of thousands of distinct
                // rights (reading must stay linear), parsed and inspected only
                for (k, b) in child.seeds.clone() {
                    let n = if ctx.thorough { 90_000usize } else { 40_000 };
                    let right = |i: usize| -> Vec<u8> {
                        let mut r = vec![];
                        crate::wire::leb_encode(200 + (i as u64 % 16_000), &mut r);
                        crate::wire::leb_encode(17_000 + (i as u64 / 16_000), &mut r);
                        r
                    };
                    let bytes = match k.as_str() {
                        "usk" => wire::WUsk::decode(&b).ok().and_then(|mut w| {
                            let sec = w.rights.iter().flat_map(|(_, c)| c.iter()).find(|x| !x.hyb).cloned()?;
                            w.rights = (0..n).map(|i| (right(i), vec![sec.clone()])).collect();
                            Some(w.encode())
                        }),
                        "mpk" => wire::WMpk::decode(&b).ok().and_then(|mut w| {
                            let key = w.keys.iter().map(|(_, k)| k).find(|x| !x.hyb).cloned()?;
                            w.keys = (0..n).map(|i| (right(i), key.clone())).collect();
                            Some(w.encode())
                        }),
                        _ => None,
                    };
                    if let Some(bytes) = bytes {
                        // one of each is enough: the seeds of a kind differ in shape only
                        if !inputs.iter().any(|x: &Input| x.kind == format!("{k}-parse") && x.class == "crafted:many-rights") {
                            let points = if k == "mpk" { n as u64 + 8 } else { 8 };
                            inputs.push(Input { kind: format!("{k}-parse"), bytes, class: "crafted:many-rights".into(), changes_count: true, points });
                        }
                    }
                }
                // every worker has its own seeds (same shapes, different random bytes and hash
                // orders), so the enumerations are not index-aligned across workers: an input is
                // owned by the worker given by a stable hash of (kind, class, k-th of that group)
                let mut nth: std::collections::HashMap<(String, String), u64> = std::collections::HashMap::new();
                for inp in inputs.iter() {
                    let k = nth.entry((inp.kind.clone(), inp.class.clone())).or_insert(0);
                    let owner = crate::report::fp(&(&inp.kind, &inp.class, *k)) % ctx.threads as u64;
                    *k += 1;
                    if owner != t as u64 {
                        continue;
                    }
                    if col.stopped() {
                        return;
                    }
                    let out = child.run(&inp.kind, &inp.bytes, CPU_LIMIT_S);
                    if !handle(col, found, inp, &out, calib) {
                        child = match Child::spawn() {
                            Ok(c) => c,
                            Err(_) => return,
                        };
                    }
                }
                // generated mutations
                let mut runner = new_runner(ctx.seed, 1400 + t as u64);
                let strat = mut_strategy();
                for i in 0..random_per_thread {
                    if col.stopped() {
                        return;
                    }
                    let Ok(tree) = strat.new_tree(&mut runner) else { continue };
                    let m = tree.current();
                    let inp = apply(&m, &child.seeds, KINDS, i);
                    let out = child.run(&inp.kind, &inp.bytes, CPU_LIMIT_S);
                    if !handle(col, found, &inp, &out, calib) {
                        child = match Child::spawn() {
                            Ok(c) => c,
                            Err(_) => return,
                        };
                    }
                }
            });
        }
    });
    let c = calib.lock().unwrap();
    col.note(format!("envelope use (max observed / allowed): cpu {:.3}, peak memory {:.3}, largest allocation {:.3}", c.0, c.1, c.2));
    let found = found.map.into_inner().unwrap();
    for (_sig, (f, inp)) in found {
        report_fail(col, "bytes", f, json!({"kind": inp.kind, "class": inp.class, "points": inp.points, "hex": wire::hex(&inp.bytes)}));
    }
    for c in [
        "mut:truncation", "mut:byte-xor01", "mut:byte-setff", "mut:field=0", "mut:field=small", "mut:field=medium", "mut:field=huge", "mut:field=overlong-leb",
        "mut:zero:no-traps", "mut:zero:no-components", "mut:zero:no-markers", "mut:zero:no-rights", "mut:zero:empty-chains", "mut:zero:no-tracers", "mut:zero:no-dimensions",
        "mut:metadata-truncated", "mut:many-components", "mut:crafted", "mut:random-bytes", "mut:splice", "mut:smash", "mut:insert", "mut:remove",
    ] {
        if col.class_count(c) == 0 && !col.stopped() {
            col.note(format!("generator unhealthy: mutation class {c} never produced"));
        }
    }
    for k in ["xenc", "header", "usk", "mpk", "msk", "structure"] {
        if col.class_count(&format!("parsed:{k}")) == 0 && !col.stopped() {
            col.note(format!("generator unhealthy: no mutant of kind {k} parsed"));
        }
    }
    Meta {
        level: "fault_enumeration",
        rule: format!("for valid serializations of encapsulations (classic, hybridized, multi-target), an encrypted header, user keys (two revisions, hybridized), a public key, a master key and an access structure, produced inside an isolated worker process: every truncation (strided beyond 300 bytes for large objects in the quick tier), single-byte corruptions (xor 01 / xor 80 / 00 / ff at every offset of small objects, strided for large ones), every count / length / flag field located by the independent codec replaced by each of {BOUNDARY:?} and value+-1, over-long LEB128, zero-element variants (no traps, no markers, no rights, empty chains, no tracers, empty structure), generated splices / smashes / insertions / removals and random strings, crafted structures of 10-26 one-attribute dimensions (alone, inside a public key, inside a master key; parsed and inspected only), a user key and a public key with 40 000 distinct rights (90 000 in the thorough tier; parsed and inspected only, CPU <= 150 ms + 0.4 us/byte + 60 us per curve point to decompress); every mutant that parses is used (decaps with honest keys, recaps, header decrypt, refresh, encaps under a parsed public key, key generation / update / rekey with a parsed master key, accessors). Oracle: a value or an error — no panic, abort, signal — with CPU <= 150ms + 60us/byte + 3ms per decapsulation trial, peak allocation <= 2MiB + 96 B/byte, largest single allocation <= 512KiB + 24 B/byte. Non-trivial = mutant of a count / length field, or mutant that parses; distinct by (type, mutation class, parsed?)"),
        exhaustive: false,
        assumptions: vec![
            "'proportional' is an envelope with calibrated constants (ratio of use recorded in notes); a regression inside the envelope is not detected".into(),
            "the worker's allocator refuses requests above 1 GiB so that over-allocation aborts deterministically".into(),
        ],
    }
}

pub fn replay(_kind: &str, case: &serde_json::Value, _col: &Collector) -> CheckResult {
    let kind = case["kind"].as_str().unwrap_or("xenc").to_string();
    let bytes = wire::unhex(case["hex"].as_str().unwrap_or("")).unwrap_or_default();
    let inp = Input { kind: kind.clone(), bytes, class: case["class"].as_str().unwrap_or("replay").to_string(), changes_count: false, points: case["points"].as_u64().unwrap_or(0) };
    let mut child = Child::spawn().map_err(|e| Fail::new("infra", e))?;
    let out = child.run(&inp.kind, &inp.bytes, CPU_LIMIT_S);
    judge(&inp, &out).map(|_| ())
}
