//! C12 — PKE and encrypted-header layers round-trip and authenticate.

use super::Meta;
use crate::ccx::*;
use crate::report::{CheckResult, Collector, Fail};
use crate::runner::run_cases;
use crate::Ctx;
use proptest::prelude::*;
use serde::{Deserialize, Serialize};
use serde_json::json;

const BOUNDARY: &[usize] = &[0, 1, 11, 12, 13, 15, 16, 17, 27, 28, 29, 31, 32, 33, 63, 64, 65, 4095, 4096, 4097];

#[derive(Clone, Debug, Serialize, Deserialize, Hash, PartialEq, Eq)]
pub enum Shape {
    Absent,
    Empty,
    Len(u32),
}

#[derive(Clone, Debug, Serialize, Deserialize, Hash, PartialEq, Eq)]
pub struct PkeCase {
    pub ptx_len: u32,
    pub fill: u8,
    pub metadata: Shape,
    pub aad_gen: Shape,
    /// 0: same as generation, 1: absent<->empty swap, 2: different content, 3: prefix, 4: absent
    pub aad_dec: u8,
    pub hybrid_policy: bool,
    /// 0 none, 1 flip one bit at `pos`, 2 truncate to `pos`, 3 append a byte
    pub tamper: u8,
    pub pos: u16,
    /// 0: the policy chosen by `hybrid_policy`; 1..=4: see `POLICIES`
    #[serde(default)]
    pub variant: u8,
}

/// (encryption policy, key that must open it, key that must not): mixed-flavour disjunctions
/// opened through the hybridized branch only / through the classic branch only, broadcast, and a
/// fully hybridized disjunction.
const POLICIES: [(&str, usize, Option<usize>); 6] = [
    ("SEC::LOW && DPT::FIN", 0, Some(1)),
    ("SEC::TOP && DPT::FIN", 0, Some(1)),
    ("SEC::TOP && DPT::HR || DPT::FIN", 2, Some(3)),
    ("SEC::TOP && DPT::HR || DPT::FIN", 4, Some(3)),
    ("*", 1, None),
    ("SEC::TOP && DPT::HR || SEC::TOP && DPT::FIN", 2, Some(3)),
];
const KEY_POLICIES: [&str; 5] = ["SEC::TOP && DPT::FIN", "DPT::HR", "SEC::TOP && DPT::HR", "SEC::LOW && DPT::HR", "SEC::LOW && DPT::FIN"];

fn len_strategy() -> impl Strategy<Value = u32> {
    prop_oneof![
        3 => proptest::sample::select(BOUNDARY.to_vec()).prop_map(|x| x as u32),
        2 => 0u32..200,
        1 => 0u32..65536,
    ]
}

fn shape() -> impl Strategy<Value = Shape> {
    prop_oneof![
        1 => Just(Shape::Absent),
        1 => Just(Shape::Empty),
        3 => len_strategy().prop_map(Shape::Len),
    ]
}

fn strategy() -> impl Strategy<Value = PkeCase> {
    (len_strategy(), any::<u8>(), shape(), shape(), 0u8..5, any::<bool>(), 0u8..4, any::<u16>(), prop_oneof![2 => Just(0u8), 3 => 1u8..=4]).prop_map(
        |(ptx_len, fill, metadata, aad_gen, aad_dec, hybrid_policy, tamper, pos, variant)| PkeCase { ptx_len, fill, metadata, aad_gen, aad_dec, hybrid_policy, tamper, pos, variant },
    )
}

fn bytes(len: u32, fill: u8) -> Vec<u8> {
    (0..len).map(|i| (i as u8).wrapping_mul(31).wrapping_add(fill)).collect()
}

fn materialize(s: &Shape, fill: u8) -> Option<Vec<u8>> {
    match s {
        Shape::Absent => None,
        Shape::Empty => Some(vec![]),
        Shape::Len(n) => Some(bytes(*n, fill)),
    }
}

pub struct Fixture {
    pub cc: Covercrypt,
    pub mpk: MasterPublicKey,
    pub authorized: UserSecretKey,
    pub unauthorized: UserSecretKey,
    /// one key per entry of `KEY_POLICIES`
    pub keys: Vec<UserSecretKey>,
    /// public key of a second authority that declares the same names in another order (other
    /// attribute ids): encrypting for it first must not influence the next encryption
    pub other_mpk: MasterPublicKey,
}

pub fn fixture() -> Result<Fixture, Fail> {
    let cc = Covercrypt::default();
    let e = |e: Error| Fail::new("fixture-failed", short_err(&e));
    let (mut msk, _) = cc.setup().map_err(e)?;
    msk.access_structure.add_hierarchy("SEC".into()).map_err(e)?;
    msk.access_structure.add_attribute(qa("SEC", "LOW"), hint(false), None).map_err(e)?;
    msk.access_structure.add_attribute(qa("SEC", "TOP"), hint(true), Some("LOW")).map_err(e)?;
    msk.access_structure.add_anarchy("DPT".into()).map_err(e)?;
    msk.access_structure.add_attribute(qa("DPT", "FIN"), hint(false), None).map_err(e)?;
    msk.access_structure.add_attribute(qa("DPT", "HR"), hint(false), None).map_err(e)?;
    let mpk = cc.update_msk(&mut msk).map_err(e)?;
    let authorized = cc.generate_user_secret_key(&mut msk, &AccessPolicy::parse("SEC::TOP && DPT::FIN").map_err(e)?).map_err(e)?;
    let unauthorized = cc.generate_user_secret_key(&mut msk, &AccessPolicy::parse("DPT::HR").map_err(e)?).map_err(e)?;
    let mut keys = vec![authorized.clone(), unauthorized.clone()];
    for p in &KEY_POLICIES[2..] {
        keys.push(cc.generate_user_secret_key(&mut msk, &AccessPolicy::parse(p).map_err(e)?).map_err(e)?);
    }
    let (mut msk2, _) = cc.setup().map_err(e)?;
    msk2.access_structure.add_anarchy("DPT".into()).map_err(e)?;
    msk2.access_structure.add_attribute(qa("DPT", "HR"), hint(false), None).map_err(e)?;
    msk2.access_structure.add_attribute(qa("DPT", "FIN"), hint(false), None).map_err(e)?;
    msk2.access_structure.add_hierarchy("SEC".into()).map_err(e)?;
    msk2.access_structure.add_attribute(qa("SEC", "LOW"), hint(false), None).map_err(e)?;
    msk2.access_structure.add_attribute(qa("SEC", "TOP"), hint(true), Some("LOW")).map_err(e)?;
    let other_mpk = cc.update_msk(&mut msk2).map_err(e)?;
    // back to the first authority: whatever an instance remembers from `update_msk` is now
    // about a master key that is not the one of `mpk`
    Ok(Fixture { cc, mpk, authorized, unauthorized, keys, other_mpk })
}

fn same_aad(a: &Option<Vec<u8>>, b: &Option<Vec<u8>>) -> bool {
    a.as_deref().unwrap_or(&[]) == b.as_deref().unwrap_or(&[])
}

pub fn check_case(case: &PkeCase, col: &Collector) -> CheckResult {
    let fx = fixture()?;
    let (pol, ki, ku) = match case.variant {
        0 => POLICIES[case.hybrid_policy as usize],
        v => POLICIES[2 + (v as usize - 1) % 4],
    };
    col.class(&format!("policy:{pol} key:{}", KEY_POLICIES[ki]));
    let ap = AccessPolicy::parse(pol).unwrap();
    let authorized = &fx.keys[ki];
    let unauthorized = ku.map(|k| &fx.keys[k]);
    let ptx = bytes(case.ptx_len, case.fill);
    let mut nontrivial = vec![];
    if BOUNDARY.contains(&(case.ptx_len as usize)) {
        nontrivial.push("boundary-length");
    }

    // ---------------- PKE
    if case.pos % 3 != 0 {
        // the same instance first encrypts the same policy for another authority
        col.class("decoy:same-policy-under-another-public-key");
        let _ = pke_encrypt(&fx.cc, &fx.other_mpk, &ap, &ptx);
    }
    let (enc, body) = pke_encrypt(&fx.cc, &fx.mpk, &ap, &ptx).map_err(|e| Fail::new("pke-encrypt-failed", short_err(&e)))?;
    if body.len() != ptx.len() + 28 {
        return Err(Fail::new("pke-ciphertext-length", format!("plaintext {} bytes -> ciphertext {} bytes, expected +28 (nonce, tag)", ptx.len(), body.len())));
    }
    match pke_decrypt(&fx.cc, authorized, &(enc.clone(), body.clone())) {
        Ok(Some(p)) if p == ptx => {}
        Ok(Some(_)) => return Err(Fail::new("pke-wrong-plaintext", format!("len {}: authorized key decrypted to different data", ptx.len()))),
        Ok(None) => return Err(Fail::new("pke-authorized-refused", format!("policy '{pol}', key '{}', len {}: authorized key got None", KEY_POLICIES[ki], ptx.len()))),
        Err(e) => return Err(Fail::new("pke-authorized-error", format!("len {}: authorized key got Err({})", ptx.len(), short_err(&e)))),
    }
    if let Some(unauthorized) = unauthorized {
        match pke_decrypt(&fx.cc, unauthorized, &(enc.clone(), body.clone())) {
            Ok(None) => {
                nontrivial.push("unauthorized-key");
            }
            Ok(Some(_)) => return Err(Fail::new("pke-unauthorized-decrypts", format!("policy '{pol}': unauthorized key decrypted a PKE ciphertext"))),
            Err(e) => return Err(Fail::new("pke-unauthorized-error", format!("unauthorized key must get 'not authorized' (None), got Err({})", short_err(&e)))),
        }
    }
    let tampered: Option<(Vec<u8>, &str)> = match case.tamper {
        1 => {
            let mut b = body.clone();
            let i = (case.pos as usize) % b.len();
            b[i] ^= 1 << (case.pos % 8);
            Some((b, "bit-flip"))
        }
        2 => {
            let n = (case.pos as usize) % body.len();
            if n < 12 {
                nontrivial.push("truncated-below-nonce");
            }
            Some((body[..n].to_vec(), "truncation"))
        }
        3 => {
            let mut b = body.clone();
            b.push(case.pos as u8);
            Some((b, "extension"))
        }
        _ => None,
    };
    if let Some((b, what)) = tampered {
        col.class(&format!("pke-tamper:{what}"));
        match pke_decrypt(&fx.cc, authorized, &(enc.clone(), b.clone())) {
            Err(_) => {}
            Ok(None) => return Err(Fail::new("pke-tampered-gives-none", format!("{what} of the PKE body: expected an error, got 'not authorized'"))),
            Ok(Some(_)) => return Err(Fail::new(format!("pke-tampered-accepted:{what}"), format!("{what} of a {}-byte PKE ciphertext (-> {} bytes) was accepted", body.len(), b.len()))),
        }
    }
    // the encapsulation part without components / without traps (re-encoded through the codec):
    // an error or 'not authorized', never a panic, for the PKE and for the header
    if case.tamper == 0 || case.pos % 4 == 0 {
        if let Ok(w) = crate::wire::WXEnc::decode(&ser(&enc)?) {
            let mut a = w.clone();
            a.encs.clear();
            let mut b = w.clone();
            b.c.clear();
            for (what, v) in [("no-component", a), ("no-trap", b)] {
                let Ok(x) = de::<XEnc>(&v.encode()) else { continue };
                col.class(&format!("xenc-tamper:{what}"));
                // on an instance of its own: a panic must not be hidden by a poisoned lock
                let cc = Covercrypt::default();
                let r = std::panic::catch_unwind(std::panic::AssertUnwindSafe(|| pke_decrypt(&cc, authorized, &(x.clone(), body.clone()))));
                match r {
                    Ok(Ok(Some(_))) => return Err(Fail::new(format!("pke-tampered-accepted:{what}"), format!("PKE ciphertext whose encapsulation has {what}: decrypted"))),
                    Ok(_) => {}
                    Err(_) => {
                        let (loc, msg) = crate::runner::take_panic();
                        return Err(Fail::new(format!("pke-decrypt-panic@{loc}"), format!("PKE ciphertext whose encapsulation has {what}: decrypt panicked at {loc}: {msg}")));
                    }
                }
                let h = EncryptedHeader { encapsulation: x, encrypted_metadata: None };
                let r = std::panic::catch_unwind(std::panic::AssertUnwindSafe(|| h.decrypt(&cc, authorized, None)));
                match r {
                    Ok(Ok(Some(_))) => return Err(Fail::new(format!("header-tampered-accepted:{what}"), format!("header whose encapsulation has {what}: decrypted"))),
                    Ok(_) => {}
                    Err(_) => {
                        let (loc, msg) = crate::runner::take_panic();
                        return Err(Fail::new(format!("header-decrypt-panic@{loc}"), format!("header whose encapsulation has {what}: decrypt panicked at {loc}: {msg}")));
                    }
                }
            }
        }
    }
    // every truncation for short inputs
    if body.len() <= 64 {
        for n in 0..body.len() {
            col.class("pke-truncations");
            match pke_decrypt(&fx.cc, authorized, &(enc.clone(), body[..n].to_vec())) {
                Err(_) => {}
                Ok(x) => return Err(Fail::new("pke-truncation-accepted", format!("PKE body of {} bytes truncated to {n}: got Ok({})", body.len(), if x.is_some() { "Some" } else { "None" }))),
            }
        }
    }

    // ---------------- encrypted header
    let md = materialize(&case.metadata, case.fill.wrapping_add(1));
    let aad_gen = materialize(&case.aad_gen, case.fill.wrapping_add(2));
    if case.pos % 3 == 1 {
        let _ = EncryptedHeader::generate(&fx.cc, &fx.other_mpk, &ap, md.as_deref(), aad_gen.as_deref());
    }
    let (secret, header) = EncryptedHeader::generate(&fx.cc, &fx.mpk, &ap, md.as_deref(), aad_gen.as_deref()).map_err(|e| Fail::new("header-generate-failed", short_err(&e)))?;
    let aad_dec: Option<Vec<u8>> = match case.aad_dec {
        0 => aad_gen.clone(),
        1 => match &aad_gen {
            None => Some(vec![]),
            Some(v) if v.is_empty() => None,
            Some(v) => Some(v.clone()),
        },
        2 => Some({
            let mut v = aad_gen.clone().unwrap_or_default();
            if v.is_empty() {
                v.push(7);
            } else {
                let i = case.pos as usize % v.len();
                v[i] ^= 0x20;
            }
            v
        }),
        3 => aad_gen.as_ref().map(|v| v[..v.len() / 2].to_vec()),
        _ => None,
    };
    let same = same_aad(&aad_gen, &aad_dec);
    if !same {
        nontrivial.push("mismatching-aad");
    }
    if case.aad_dec == 1 {
        col.class("aad:absent-vs-empty");
    }
    match (&case.metadata, header.encrypted_metadata.is_some()) {
        (Shape::Absent, false) | (Shape::Empty, true) | (Shape::Len(_), true) => {}
        (m, p) => return Err(Fail::new("header-metadata-presence", format!("metadata {m:?} -> encrypted_metadata present = {p}"))),
    }
    // the same oracle applies to the header after a serialization round-trip (half of the cases)
    let header = if case.pos % 2 == 0 {
        col.class("header:via-serialization");
        let b = ser(&header)?;
        de::<EncryptedHeader>(&b).map_err(|e| Fail::new("header-roundtrip-failed", e))?
    } else {
        header
    };
    let r = header.decrypt(&fx.cc, authorized, aad_dec.as_deref());
    if same {
        match r {
            Ok(Some(clear)) => {
                if clear.secret != secret {
                    return Err(Fail::new("header-secret-differs", "decrypted header secret differs from the one generate() returned".to_string()));
                }
                let got = clear.metadata.clone().unwrap_or_default();
                let want = md.clone().unwrap_or_default();
                if got != want {
                    return Err(Fail::new("header-metadata-differs", format!("metadata {} bytes decrypted to {} different bytes", want.len(), got.len())));
                }
            }
            Ok(None) => return Err(Fail::new("header-authorized-refused", format!("policy '{pol}', key '{}': authorized key got None", KEY_POLICIES[ki]))),
            Err(e) => return Err(Fail::new("header-authorized-error", format!("metadata {:?} aad_gen {:?} aad_dec variant {}: Err({})", case.metadata, case.aad_gen, case.aad_dec, short_err(&e)))),
        }
    } else if md.is_some() {
        match r {
            Err(_) => {}
            Ok(x) => return Err(Fail::new("header-aad-mismatch-accepted", format!("authentication data differs (gen {:?}, dec variant {}), decrypt returned Ok({})", case.aad_gen, case.aad_dec, if x.is_some() { "Some" } else { "None" }))),
        }
    } else {
        // no metadata => nothing is symmetrically encrypted, the authentication data is unused
        col.class("aad-mismatch-with-absent-metadata(not judged)");
        if r.is_err() {
            col.class("aad-mismatch-with-absent-metadata:err");
        }
    }
    if let Some(unauthorized) = unauthorized {
        match header.decrypt(&fx.cc, unauthorized, aad_dec.as_deref()) {
            Ok(None) => {}
            Ok(Some(_)) => return Err(Fail::new("header-unauthorized-decrypts", format!("policy '{pol}': unauthorized key decrypted a header"))),
            Err(e) => return Err(Fail::new("header-unauthorized-error", format!("unauthorized key must get None, got Err({})", short_err(&e)))),
        }
    }
    // tamper with the encrypted metadata
    if let Some(em) = &header.encrypted_metadata {
        let mut variants: Vec<(Vec<u8>, String)> = vec![];
        match case.tamper {
            1 => {
                let mut b = em.clone();
                let i = (case.pos as usize) % b.len();
                b[i] ^= 1 << (case.pos % 8);
                variants.push((b, "bit-flip".into()));
            }
            2 => variants.push((em[..(case.pos as usize) % em.len()].to_vec(), "truncation".into())),
            3 => {
                let mut b = em.clone();
                b.push(1);
                variants.push((b, "extension".into()));
            }
            _ => {}
        }
        if em.len() <= 64 {
            for n in 0..em.len() {
                variants.push((em[..n].to_vec(), format!("truncation-to-{n}")));
            }
        }
        for (b, what) in variants {
            col.class("header-metadata-tamper");
            let h2 = EncryptedHeader { encapsulation: header.encapsulation.clone(), encrypted_metadata: Some(b.clone()) };
            match h2.decrypt(&fx.cc, authorized, aad_gen.as_deref()) {
                Err(_) => {}
                Ok(x) => return Err(Fail::new("header-tampered-metadata-accepted", format!("{what} of {}-byte encrypted metadata: decrypt returned Ok({})", em.len(), if x.is_some() { "Some" } else { "None" }))),
            }
        }
    }
    if !nontrivial.is_empty() {
        for n in &nontrivial {
            col.class(&format!("c12:{n}"));
        }
        if col.nontrivial(case) {
            col.sample(|| json!({"case": case, "why_nontrivial": nontrivial}));
        }
    }
    Ok(())
}

pub fn run(ctx: &Ctx, col: &Collector) -> Meta {
    run_cases(&ctx.run_cfg(ctx.n(6000, 150_000), 1), "pke", strategy, col, check_case);
    for c in ["c12:boundary-length", "c12:mismatching-aad", "c12:truncated-below-nonce", "c12:unauthorized-key", "aad:absent-vs-empty", "pke-truncations", "header-metadata-tamper", "header:via-serialization", "policy:SEC::TOP && DPT::HR || DPT::FIN key:SEC::TOP && DPT::HR", "policy:SEC::TOP && DPT::HR || DPT::FIN key:SEC::LOW && DPT::FIN", "policy:* key:DPT::HR", "decoy:same-policy-under-another-public-key", "xenc-tamper:no-component"] {
        if col.class_count(c) == 0 && !col.stopped() {
            col.note(format!("generator unhealthy: class {c} empty"));
        }
    }
    Meta {
        level: "exploration",
        rule: format!("generated (plaintext length, metadata shape, authentication data at generation and at decryption, tampering) tuples; lengths from the boundary set {BOUNDARY:?} and random up to 64 KiB; metadata / authentication data absent, empty or non-empty; authentication data at decryption equal, absent<->empty swapped, altered, truncated or absent; bit flips, truncations (every length for bodies <= 64 bytes), extensions, the encapsulation part re-encoded without components / without traps (error or None, never a panic); two encryptions in three are preceded by an encryption of the same policy under the public key of another authority (same names, other attribute ids) on the same instance; authorized and unauthorized keys; classic, hybridized, broadcast, fully hybridized multi-target and mixed-flavour policies (the latter opened through the hybridized branch only and through the classic branch only). Oracle: exact round-trip for authorized keys, None for unauthorized, Err for differing authentication data or any tampering. Non-trivial = boundary length, mismatching authentication data, truncation below the nonce length, or unauthorized key; distinct by case"),
        exhaustive: false,
        assumptions: vec![
            "when the header carries no metadata nothing is symmetrically encrypted, so differing authentication data cannot be (and is not required to be) detected; counted, not judged".into(),
            "tampering is applied to the in-memory objects (ciphertext bytes, Option<Vec<u8>> metadata)".into(),
        ],
    }
}

pub fn replay(_kind: &str, case: &serde_json::Value, col: &Collector) -> CheckResult {
    let c: PkeCase = serde_json::from_value(case.clone()).map_err(|e| Fail::new("replay-format", e.to_string()))?;
    check_case(&c, col)
}
