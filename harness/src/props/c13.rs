//! C13 — serialized objects are faithful, stable and interchangeable with the originals.
//!
//! (a/b) histories with round-trips injected before random steps: strict serialization checks
//!       (length(), write() count, equality after deserialization, independent codec agreement)
//!       and model agreement of every later outcome;
//! (c)   headers / cleartext headers / access structures for all metadata shapes;
//! (d)   golden vectors serialized by the pinned release.

use super::hist::*;
use super::Meta;
use crate::ccx::*;
use crate::report::{CheckResult, Collector, Fail};
use crate::runner::{report_fail, run_cases};
use crate::wire::{self, WCleartext, WHeader, WMpk, WMsk, WStructure, WUsk, WXEnc};
use crate::Ctx;
use proptest::prelude::*;
use serde::{Deserialize, Serialize};
use serde_json::json;

fn profile(thorough: bool) -> Profile {
    Profile {
        add_dim: 1,
        del_dim: 1,
        add_attr: 5,
        del_attr: 3,
        rename: 2,
        disable: 4,
        update: 7,
        rekey: 9,
        prune: 3,
        keygen: 9,
        refresh: 9,
        encaps: 6,
        encaps_wide: 2,
        encaps_for: 9,
        check: 4,
        roundtrip: 22,
        recaps: 3,
        bad_pct: 2,
        min_ops: 1,
        max_ops: if thorough { 50 } else { 25 },
        max_dims: 3,
        max_attrs: 3,
        max_rights: if thorough { 100 } else { 48 },
        ..Profile::zero()
    }
}

fn nontrivial(o: &Outcome) -> bool {
    o.events.contains("roundtrip") && (o.outcomes_after_roundtrip >= 3 || o.events.contains("rekeyed") || o.events.contains("disable-effective"))
}

const CLASSES: &[&str] = &["roundtrip", "rekeyed", "disable-effective", "pruned-revisions", "update-dropped-rights", "key-with-uneven-chains", "hybridized-enc"];

pub fn hc(thorough: bool) -> HistCheck<'static> {
    HistCheck { focus: "C13", profile: profile(thorough), nontrivial, classes: CLASSES, required: &["roundtrip", "rekeyed", "disable-effective"], reps: 1, stream: 13 }
}

// ------------------------------------------------------------------ headers

#[derive(Clone, Debug, Serialize, Deserialize, Hash, PartialEq, Eq)]
pub struct HeaderCase {
    /// None, Some(empty), Some(len)
    pub metadata: Option<u16>,
    pub aad: Option<u8>,
    pub hybrid: bool,
    pub multi: bool,
}

fn header_strategy() -> impl Strategy<Value = HeaderCase> {
    (proptest::option::weighted(0.8, prop_oneof![Just(0u16), 1u16..64, 1u16..5000]), proptest::option::of(0u8..40), any::<bool>(), any::<bool>())
        .prop_map(|(metadata, aad, hybrid, multi)| HeaderCase { metadata, aad, hybrid, multi })
}

fn rt<T: Serializable + PartialEq + std::fmt::Debug>(t: &T, what: &str) -> Result<Vec<u8>, Fail>
where
    T::Error: std::fmt::Display,
{
    let b = ser_strict(t, what)?;
    let back: T = de(&b).map_err(|e| Fail::new(format!("roundtrip-deserialize-failed:{what}"), e))?;
    if &back != t {
        return Err(Fail::new(format!("roundtrip-not-equal:{what}"), format!("deserialize(serialize(x)) != x for {what}")));
    }
    Ok(b)
}

pub fn check_header(c: &HeaderCase, col: &Collector) -> CheckResult {
    let fx = super::c12::fixture()?;
    let pol = match (c.hybrid, c.multi) {
        (false, false) => "SEC::LOW && DPT::FIN",
        (false, true) => "SEC::LOW && DPT::FIN || DPT::FIN",
        (true, false) => "SEC::TOP && DPT::FIN",
        (true, true) => "SEC::TOP && DPT::FIN || SEC::TOP",
    };
    let ap = AccessPolicy::parse(pol).unwrap();
    let md: Option<Vec<u8>> = c.metadata.map(|n| (0..n).map(|i| i as u8).collect());
    let aad: Option<Vec<u8>> = c.aad.map(|n| vec![7u8; n as usize]);
    let (secret, h) = EncryptedHeader::generate(&fx.cc, &fx.mpk, &ap, md.as_deref(), aad.as_deref()).map_err(|e| Fail::new("header-generate-failed", short_err(&e)))?;
    let hb = rt(&h, "EncryptedHeader")?;
    let wh = WHeader::decode(&hb).map_err(|e| Fail::new("codec-cannot-decode-header", e))?;
    if wh.encode() != hb {
        return Err(Fail::new("codec-reencode-differs-header", "header".to_string()));
    }
    let expected_meta_len = md.as_ref().map(|m| m.len() + 28).unwrap_or(0);
    if wh.meta.len() != expected_meta_len {
        return Err(Fail::new("header-metadata-size", format!("encrypted metadata is {} bytes on the wire, expected {} (plaintext + 28)", wh.meta.len(), expected_meta_len)));
    }
    // README formula: sizeof(encapsulation) + LEB128sizeof(overhead + |metadata|) + overhead + |metadata|
    let want = ser(&h.encapsulation)?.len() + wire::leb_len(expected_meta_len as u64) + expected_meta_len;
    if hb.len() != want {
        return Err(Fail::new("header-size-formula", format!("header is {} bytes, documented formula gives {want}", hb.len())));
    }
    // the deserialized header is interchangeable with the original
    let h2: EncryptedHeader = de(&hb).map_err(|e| Fail::new("roundtrip-deserialize-failed:EncryptedHeader", e))?;
    let clear = match h2.decrypt(&fx.cc, &fx.authorized, aad.as_deref()) {
        Ok(Some(c)) => c,
        other => return Err(Fail::new("deserialized-header-unusable", format!("decrypt of the deserialized header: {:?}", other.map(|o| o.is_some()).map_err(|e| short_err(&e))))),
    };
    if clear.secret != secret || clear.metadata.clone().unwrap_or_default() != md.clone().unwrap_or_default() {
        return Err(Fail::new("deserialized-header-differs", "deserialized header decrypts to different data".to_string()));
    }
    // cleartext header: absent and empty metadata are the same value on the wire
    let cb = ser_strict(&clear, "CleartextHeader")?;
    let wc = WCleartext::decode(&cb).map_err(|e| Fail::new("codec-cannot-decode-cleartext", e))?;
    if wc.encode() != cb || wc.secret != secret.to_vec() || wc.meta != md.clone().unwrap_or_default() {
        return Err(Fail::new("cleartext-header-wire", "cleartext header wire form differs from (secret, metadata)".to_string()));
    }
    let back: CleartextHeader = de(&cb).map_err(|e| Fail::new("roundtrip-deserialize-failed:CleartextHeader", e))?;
    if back.secret != clear.secret || back.metadata.clone().unwrap_or_default() != clear.metadata.clone().unwrap_or_default() {
        return Err(Fail::new("roundtrip-not-equal:CleartextHeader", "cleartext header differs after a round-trip (modulo absent = empty)".to_string()));
    }
    let shape = match &md {
        None => "absent",
        Some(m) if m.is_empty() => "empty",
        _ => "non-empty",
    };
    col.class(&format!("header:metadata-{shape}"));
    if col.nontrivial(&("hdr", shape, c.aad.is_some(), c.hybrid, c.multi, c.metadata.map(|n| n > 127))) {
        col.sample(|| json!({"kind": "header", "policy": pol, "metadata": shape, "aad": c.aad.is_some(), "bytes": hb.len()}));
    }
    Ok(())
}


// ------------------------------------------------------------------ large objects (LEB128 boundaries)

/// Objects whose counts, lengths and attribute ids cross 127/128: strict round-trips, codec
/// agreement and use of the deserialized objects.
pub fn big_objects(col: &Collector) -> CheckResult {
    let cc = Covercrypt::default();
    let e = |e: Error| Fail::new("big-objects-failed", short_err(&e));
    let (mut msk, _) = cc.setup().map_err(e)?;
    // push the attribute ids beyond 127: 140 temporary attributes are created and deleted
    msk.access_structure.add_anarchy("TMP".into()).map_err(e)?;
    for i in 0..140 {
        msk.access_structure.add_attribute(qa("TMP", &format!("t{i}")), hint(false), None).map_err(e)?;
    }
    msk.access_structure.del_dimension("TMP").map_err(e)?;
    let spec = crate::gen::big_spec();
    spec.build(&mut msk.access_structure).map_err(e)?;
    let mpk = cc.update_msk(&mut msk).map_err(e)?;
    let sb = rt(&msk.access_structure, "AccessStructure")?;
    let ws = WStructure::decode(&sb).map_err(|e| Fail::new("codec-cannot-decode-structure", e))?;
    if ws.encode() != sb {
        return Err(Fail::new("codec-reencode-differs-structure", "big structure".to_string()));
    }
    let ids: Vec<u64> = ws.dims.iter().flat_map(|d| d.attrs.iter().map(|a| a.id)).collect();
    if ids.iter().any(|i| *i < 140) || ids.iter().collect::<std::collections::BTreeSet<_>>().len() != ids.len() {
        return Err(Fail::new("big-attribute-ids", format!("ids after 140 deleted attributes: {ids:?}")));
    }
    let pol = |s: &crate::gen::RPolicy| s.to_ast();
    let all_sec: Vec<String> = spec.dims[0].attrs.iter().map(|a| a.0.clone()).collect();
    let d2 = spec.dims[2].name.clone();
    let every = crate::gen::RPolicy {
        broadcast: false,
        groups: vec![vec![
            ("SEC".to_string(), all_sec.clone()),
            ("DPT".to_string(), spec.dims[1].attrs.iter().map(|a| a.0.clone()).collect()),
            (d2.clone(), spec.dims[2].attrs.iter().map(|a| a.0.clone()).collect()),
            ("CTR".to_string(), spec.dims[3].attrs.iter().map(|a| a.0.clone()).collect()),
        ]],
        shape: 0,
    };
    // keys: broadcast (all 630 rights), the top security level, one narrow key
    let mut k_all = cc.generate_user_secret_key(&mut msk, &AccessPolicy::Broadcast).map_err(e)?;
    let k_top = cc.generate_user_secret_key(&mut msk, &AccessPolicy::Term(qa("SEC", &all_sec[5]))).map_err(e)?;
    let k_narrow = cc.generate_user_secret_key(&mut msk, &pol(&crate::gen::RPolicy::single(&[("SEC", &all_sec[1]), ("DPT", "d0"), ("CTR", "c1")]))).map_err(e)?;
    // more than 127 registered users (the user count needs two LEB128 bytes)
    let tiny = pol(&crate::gen::RPolicy::single(&[("SEC", &all_sec[0]), ("DPT", "d1"), (d2.as_str(), spec.dims[2].attrs[0].0.as_str()), ("CTR", "c0")]));
    for _ in 0..130 {
        cc.generate_user_secret_key(&mut msk, &tiny).map_err(e)?;
    }
    // an encapsulation with 6*5*4*2 = 240 targets, and a small one for the long-named attribute
    let (s_many, x_many) = cc.encaps(&mpk, &pol(&every)).map_err(e)?;
    let (s_long, x_long) = cc.encaps(&mpk, &AccessPolicy::Term(qa("SEC", &all_sec[1]))).map_err(e)?;
    if x_many.count() != 240 {
        return Err(Fail::new("big-target-count", format!("{} targets, expected 240", x_many.count())));
    }
    // rotate part of the rights twice and refresh the broadcast key keeping old secrets (3 revisions)
    let _ = cc.rekey(&mut msk, &AccessPolicy::Term(qa("DPT", "d0"))).map_err(e)?;
    let mpk2 = cc.rekey(&mut msk, &AccessPolicy::Term(qa("DPT", "d0"))).map_err(e)?;
    cc.refresh_usk(&mut msk, &mut k_all, true).map_err(e)?;
    // strict round-trips + codec
    let mb = rt(&msk, "MasterSecretKey")?;
    let wm = WMsk::decode(&mb).map_err(|e| Fail::new("codec-cannot-decode-msk", e))?;
    if wm.users.len() < 133 {
        return Err(Fail::new("big-msk-users", format!("{} users registered, expected >= 133", wm.users.len())));
    }
    if wm.encode() != mb || wm.rights.len() != 630 {
        return Err(Fail::new("big-msk-codec", format!("{} rights decoded", wm.rights.len())));
    }
    let pb = rt(&mpk2, "MasterPublicKey")?;
    let wp = WMpk::decode(&pb).map_err(|e| Fail::new("codec-cannot-decode-mpk", e))?;
    if wp.encode() != pb || wp.keys.len() != 630 {
        return Err(Fail::new("big-mpk-codec", format!("{} keys decoded", wp.keys.len())));
    }
    let ub = rt(&k_all, "UserSecretKey")?;
    let wu = WUsk::decode(&ub).map_err(|e| Fail::new("codec-cannot-decode-usk", e))?;
    let three = wu.rights.iter().filter(|(_, c)| c.len() == 3).count();
    if wu.encode() != ub || wu.rights.len() != 630 || three == 0 {
        return Err(Fail::new("big-usk-codec", format!("{} rights, {} with three revisions", wu.rights.len(), three)));
    }
    let xb = rt(&x_many, "XEnc")?;
    let wx = WXEnc::decode(&xb).map_err(|e| Fail::new("codec-cannot-decode-xenc", e))?;
    if wx.encode() != xb || wx.encs.len() != 240 || xb.len() != WXEnc::formula_len(2, wx.hyb, 240) {
        return Err(Fail::new("big-xenc-codec", format!("{} components, {} bytes", wx.encs.len(), xb.len())));
    }
    // deserialized objects are interchangeable with the originals
    let k_all2: UserSecretKey = de(&ub).map_err(|e| Fail::new("roundtrip-deserialize-failed:UserSecretKey", e))?;
    let x_many2: XEnc = de(&xb).map_err(|e| Fail::new("roundtrip-deserialize-failed:XEnc", e))?;
    let mut msk2: MasterSecretKey = de(&mb).map_err(|e| Fail::new("roundtrip-deserialize-failed:MasterSecretKey", e))?;
    let mpk3: MasterPublicKey = de(&pb).map_err(|e| Fail::new("roundtrip-deserialize-failed:MasterPublicKey", e))?;
    let opens = |k: &UserSecretKey, x: &XEnc, s: &[u8]| -> Result<bool, Fail> {
        match cc.decaps(k, x) {
            Ok(Some(v)) if v.to_vec() == s => Ok(true),
            Ok(None) => Ok(false),
            Ok(Some(_)) => Err(Fail::new("wrong-secret", "big objects".to_string())),
            Err(er) => Err(Fail::new("decaps-error-on-valid-objects", short_err(&er))),
        }
    };
    let expect = [
        ("broadcast key (deserialized, 3 revisions) / 240-target encapsulation (deserialized)", opens(&k_all2, &x_many2, &s_many[..])?, true),
        ("top-level key / 240-target encapsulation", opens(&k_top, &x_many2, &s_many[..])?, true),
        ("narrow key / 240-target encapsulation", opens(&k_narrow, &x_many, &s_many[..])?, true),
        ("narrow key / long-named attribute", opens(&k_narrow, &x_long, &s_long[..])?, true),
        ("top-level key / long-named lower attribute", opens(&k_top, &x_long, &s_long[..])?, true),
    ];
    for (what, got, want) in expect {
        col.eval(1);
        if got != want {
            return Err(Fail::new("big-objects-verdict", format!("{what}: opens={got}, expected {want}")));
        }
        col.nontrivial(&("big", what));
    }
    // the deserialized master key keeps working: refresh, new key, new encapsulation under the deserialized public key
    let mut k = k_narrow.clone();
    cc.refresh_usk(&mut msk2, &mut k, false).map_err(|er| Fail::new("big-refresh-failed", short_err(&er)))?;
    let (s3, x3) = cc.encaps(&mpk3, &pol(&crate::gen::RPolicy::single(&[("SEC", &all_sec[0]), ("DPT", "d0")]))).map_err(e)?;
    if !opens(&k, &x3, &s3[..])? {
        return Err(Fail::new("big-objects-verdict", "refreshed narrow key cannot open an encapsulation under the deserialized public key".to_string()));
    }
    if opens(&k_narrow, &x3, &s3[..])? {
        return Err(Fail::new("big-objects-verdict", "stale narrow key opens an encapsulation made after two rekeys of its right".to_string()));
    }
    col.class("big-objects:verified");
    col.sample(|| json!({"kind": "big-objects", "rights": 630, "targets": 240, "msk_bytes": mb.len(), "usk_bytes": ub.len(), "xenc_bytes": xb.len(), "min_attribute_id": ids.iter().min()}));
    Ok(())
}

// ------------------------------------------------------------------ long chains (LEB128 boundary on revisions)

/// One right rotated 131 times without pruning, one key refreshed (keeping old secrets) after
/// every rotation: the chain counts of the master key and of the user key cross 127/128.
pub fn long_chains(col: &Collector) -> CheckResult {
    let cc = Covercrypt::default();
    let e = |e: Error| Fail::new("long-chains-failed", short_err(&e));
    let (mut msk, _) = cc.setup().map_err(e)?;
    msk.access_structure.add_anarchy("D".into()).map_err(e)?;
    msk.access_structure.add_attribute(qa("D", "a"), hint(false), None).map_err(e)?;
    msk.access_structure.add_attribute(qa("D", "h"), hint(true), None).map_err(e)?;
    let mpk0 = cc.update_msk(&mut msk).map_err(e)?;
    let ap = AccessPolicy::parse("D::a").unwrap();
    let mut key = cc.generate_user_secret_key(&mut msk, &ap).map_err(e)?;
    let (s0, x0) = cc.encaps(&mpk0, &ap).map_err(e)?;
    for n in 1..=131usize {
        let mpk = cc.rekey(&mut msk, &ap).map_err(e)?;
        cc.refresh_usk(&mut msk, &mut key, true).map_err(e)?;
        if n < 125 && n % 40 != 0 {
            continue;
        }
        col.eval(1);
        let mb = rt(&msk, "MasterSecretKey")?;
        let wm = WMsk::decode(&mb).map_err(|e| Fail::new("codec-cannot-decode-msk", e))?;
        let longest = wm.rights.iter().map(|(_, c)| c.len()).max().unwrap_or(0);
        if wm.encode() != mb || longest != n + 1 {
            return Err(Fail::new("long-chain-msk-codec", format!("after {n} rotations the serialized master key decodes to a longest chain of {longest} (expected {})", n + 1)));
        }
        let ub = rt(&key, "UserSecretKey")?;
        let wu = WUsk::decode(&ub).map_err(|e| Fail::new("codec-cannot-decode-usk", e))?;
        let longest = wu.rights.iter().map(|(_, c)| c.len()).max().unwrap_or(0);
        if wu.encode() != ub || longest != n + 1 {
            return Err(Fail::new("long-chain-usk-codec", format!("after {n} rotations the serialized user key decodes to a longest chain of {longest} (expected {})", n + 1)));
        }
        // the deserialized objects stand in for the originals
        let key2: UserSecretKey = de(&ub).map_err(|e| Fail::new("roundtrip-deserialize-failed:UserSecretKey", e))?;
        let (s1, x1) = cc.encaps(&mpk, &ap).map_err(e)?;
        for (what, x, s) in [("oldest", &x0, &s0), ("newest", &x1, &s1)] {
            match cc.decaps(&key2, x) {
                Ok(Some(v)) if v == *s => {}
                other => return Err(Fail::new("long-chain-key-unusable", format!("after {n} rotations the deserialized key does not open the {what} encapsulation: {:?}", other.map(|o| o.is_some()).map_err(|e| short_err(&e))))),
            }
        }
        if n >= 127 {
            col.nontrivial(&("long-chain", n));
        }
    }
    let mut msk2: MasterSecretKey = de(&ser(&msk)?).map_err(|e| Fail::new("roundtrip-deserialize-failed:MasterSecretKey", e))?;
    cc.refresh_usk(&mut msk2, &mut key, false).map_err(|er| Fail::new("long-chain-refresh-failed", short_err(&er)))?;
    col.class("long-chains:verified");
    Ok(())
}

// ------------------------------------------------------------------ wide dimensions, three-byte ids

/// A hierarchy of 130 levels and an anarchy of 130 attributes (attribute counts need two LEB128
/// bytes) whose attribute ids start beyond 16 384 (three LEB128 bytes inside every right).
pub fn wide_dimensions(col: &Collector) -> CheckResult {
    let cc = Covercrypt::default();
    let e = |e: Error| Fail::new("wide-dimensions-failed", short_err(&e));
    let (mut msk, _) = cc.setup().map_err(e)?;
    msk.access_structure.add_anarchy("TMP".into()).map_err(e)?;
    for i in 0..16_390 {
        msk.access_structure.add_attribute(qa("TMP", &format!("t{i}")), hint(false), None).map_err(e)?;
    }
    msk.access_structure.del_dimension("TMP").map_err(e)?;
    for (dim, hier) in [("LVL", true), ("GRP", false)] {
        if hier {
            msk.access_structure.add_hierarchy(dim.into()).map_err(e)?;
        } else {
            msk.access_structure.add_anarchy(dim.into()).map_err(e)?;
        }
        let mut prev: Option<String> = None;
        for i in 0..130 {
            let name = format!("{}{i}", if hier { "l" } else { "g" });
            msk.access_structure.add_attribute(qa(dim, &name), hint(i % 50 == 7), if hier { prev.as_deref() } else { None }).map_err(e)?;
            prev = Some(name);
        }
        // one dimension at a time: 131 rights each, the product would be 17 161
        let mpk = cc.update_msk(&mut msk).map_err(e)?;
        let sb = rt(&msk.access_structure, "AccessStructure")?;
        let ws = WStructure::decode(&sb).map_err(|e| Fail::new("codec-cannot-decode-structure", e))?;
        let d = ws.dims.iter().find(|d| d.name == dim).ok_or_else(|| Fail::new("wide-dimension-missing", dim.to_string()))?;
        if ws.encode() != sb || d.attrs.len() != 130 || d.attrs.iter().any(|a| a.id < 16_384) {
            return Err(Fail::new("wide-dimension-codec", format!("{dim}: {} attributes, smallest id {:?}", d.attrs.len(), d.attrs.iter().map(|a| a.id).min())));
        }
        if hier && d.attrs.iter().enumerate().any(|(i, a)| a.name != format!("l{i}")) {
            return Err(Fail::new("wide-hierarchy-order", "levels are not stored in rank order".to_string()));
        }
        let mb = rt(&msk, "MasterSecretKey")?;
        let wm = WMsk::decode(&mb).map_err(|e| Fail::new("codec-cannot-decode-msk", e))?;
        let pb = rt(&mpk, "MasterPublicKey")?;
        let wp = WMpk::decode(&pb).map_err(|e| Fail::new("codec-cannot-decode-mpk", e))?;
        if wm.encode() != mb || wp.encode() != pb || wm.rights.len() != 131 || wp.keys.len() != 131 {
            return Err(Fail::new("wide-dimension-codec", format!("{dim}: master key decodes to {} rights, public key to {} (expected 131)", wm.rights.len(), wp.keys.len())));
        }
        col.eval(3);
        // keys and encapsulations through deserialized objects
        let mut msk2: MasterSecretKey = de(&mb).map_err(|e| Fail::new("roundtrip-deserialize-failed:MasterSecretKey", e))?;
        let mpk2: MasterPublicKey = de(&pb).map_err(|e| Fail::new("roundtrip-deserialize-failed:MasterPublicKey", e))?;
        let (hi, mid, lo) = if hier { ("l129", "l64", "l0") } else { ("g129", "g64", "g0") };
        let k_hi = cc.generate_user_secret_key(&mut msk2, &AccessPolicy::Term(qa(dim, hi))).map_err(e)?;
        let k_mid = cc.generate_user_secret_key(&mut msk2, &AccessPolicy::Term(qa(dim, mid))).map_err(e)?;
        let ub = rt(&k_hi, "UserSecretKey")?;
        let wu = WUsk::decode(&ub).map_err(|e| Fail::new("codec-cannot-decode-usk", e))?;
        let want_rights = if hier { 131 } else { 2 };
        if wu.encode() != ub || wu.rights.len() != want_rights {
            return Err(Fail::new("wide-dimension-codec", format!("{dim}: key for {hi} holds {} rights, expected {want_rights}", wu.rights.len())));
        }
        let k_hi2: UserSecretKey = de(&ub).map_err(|e| Fail::new("roundtrip-deserialize-failed:UserSecretKey", e))?;
        for (target, opens_hi, opens_mid) in [(hi, true, false), (mid, hier, true), (lo, hier, hier)] {
            let (s, x) = cc.encaps(&mpk2, &AccessPolicy::Term(qa(dim, target))).map_err(e)?;
            let xb = rt(&x, "XEnc")?;
            let x2: XEnc = de(&xb).map_err(|e| Fail::new("roundtrip-deserialize-failed:XEnc", e))?;
            for (who, key, want) in [("top / last", &k_hi2, opens_hi), ("middle", &k_mid, opens_mid)] {
                col.eval(1);
                let got = match cc.decaps(key, &x2) {
                    Ok(Some(v)) if v == s => true,
                    Ok(None) => false,
                    other => return Err(Fail::new("wide-dimension-verdict", format!("{dim}: {who} key vs {target}: {:?}", other.map(|o| o.is_some()).map_err(|e| short_err(&e))))),
                };
                if got != want {
                    return Err(Fail::new("wide-dimension-verdict", format!("{dim} ({}): {who} key vs encapsulation for {target}: opens={got}, expected {want}", if hier { "hierarchy of 130 levels" } else { "130 unordered attributes" })));
                }
                col.nontrivial(&("wide-dim", dim, target, who));
            }
        }
        // drop the dimension again so that the next one stands alone
        msk.access_structure.del_dimension(dim).map_err(e)?;
        cc.update_msk(&mut msk).map_err(e)?;
    }
    col.class("wide-dimensions:verified");
    Ok(())
}

// ------------------------------------------------------------------ pinned-release layout of current objects

/// The pinned release wrote access structures without the next-id field (version 0). Current
/// master keys, public keys and structures of several shapes — among them the empty structure of
/// a master key fresh from `setup()` — are re-encoded in that layout through the codec: they must
/// load, describe the same dimensions and attributes, and keep working.
pub fn pinned_layout(col: &Collector) -> CheckResult {
    let cc = Covercrypt::default();
    let e = |e: Error| Fail::new("pinned-layout-failed", short_err(&e));
    for shape in 0..4u8 {
        let (mut msk, _) = cc.setup().map_err(e)?;
        if shape >= 1 {
            msk.access_structure.add_hierarchy("SEC".into()).map_err(e)?;
        }
        if shape >= 2 {
            msk.access_structure.add_attribute(qa("SEC", "LOW"), hint(false), None).map_err(e)?;
            msk.access_structure.add_attribute(qa("SEC", "TOP"), hint(true), Some("LOW")).map_err(e)?;
        }
        if shape >= 3 {
            msk.access_structure.add_anarchy("DPT".into()).map_err(e)?;
            msk.access_structure.add_attribute(qa("DPT", "FIN"), hint(false), None).map_err(e)?;
        }
        let mpk = cc.update_msk(&mut msk).map_err(e)?;
        let what = ["empty structure (fresh from setup)", "one empty dimension", "one hierarchy", "two dimensions"][shape as usize];
        let old = |mut w: WStructure| {
            w.version = 0;
            w.next_id = None;
            w
        };
        let mut wm = WMsk::decode(&ser(&msk)?).map_err(|e| Fail::new("codec-cannot-decode-msk", e))?;
        let v2_dims = wm.structure.dims.clone();
        wm.structure = old(wm.structure);
        let unread = |obj: &str, er: String| Fail::new(format!("pinned-layout-unreadable:{obj}"), format!("{obj} with {what}, written in the layout of the pinned release, no longer deserializes: {er}"));
        let mut msk1: MasterSecretKey = de(&wm.encode()).map_err(|er| unread("master key", er))?;
        let mut wp = WMpk::decode(&ser(&mpk)?).map_err(|e| Fail::new("codec-cannot-decode-mpk", e))?;
        wp.structure = old(wp.structure);
        let mpk1: MasterPublicKey = de(&wp.encode()).map_err(|er| unread("public key", er))?;
        let ws = old(WStructure::decode(&ser(&msk.access_structure)?).map_err(|e| Fail::new("codec-cannot-decode-structure", e))?);
        let _s1: AccessStructure = de(&ws.encode()).map_err(|er| unread("access structure", er))?;
        col.eval(3);
        let back = WMsk::decode(&ser(&msk1)?).map_err(|e| Fail::new("codec-cannot-decode-msk", e))?;
        let mut a = back.structure.dims.clone();
        let mut b = v2_dims.clone();
        a.sort_by(|x, y| x.name.cmp(&y.name));
        b.sort_by(|x, y| x.name.cmp(&y.name));
        let same = a.len() == b.len()
            && a.iter().zip(b.iter()).all(|(x, y)| {
                let (mut xa, mut ya) = (x.attrs.clone(), y.attrs.clone());
                if x.ordered == 0 {
                    xa.sort_by(|p, q| p.name.cmp(&q.name));
                    ya.sort_by(|p, q| p.name.cmp(&q.name));
                }
                x.name == y.name && x.ordered == y.ordered && xa == ya
            });
        if !same || back.rights.len() != wm.rights.len() || back.users != wm.users {
            return Err(Fail::new("pinned-layout-differs", format!("master key with {what}: what was read from the pinned-release layout differs from the original")));
        }
        // the loaded objects keep working: a new attribute gets an unused id, keys and encapsulations interoperate
        msk1.access_structure.add_anarchy("NEW".into()).map_err(|er| Fail::new("pinned-layout-object-unusable", short_err(&er)))?;
        msk1.access_structure.add_attribute(qa("NEW", "n"), hint(false), None).map_err(|er| Fail::new("pinned-layout-object-unusable", short_err(&er)))?;
        let mpk2 = cc.update_msk(&mut msk1).map_err(|er| Fail::new("pinned-layout-object-unusable", short_err(&er)))?;
        let ids: Vec<u64> = WMsk::decode(&ser(&msk1)?).map_err(|e| Fail::new("codec-cannot-decode-msk", e))?.structure.dims.iter().flat_map(|d| d.attrs.iter().map(|a| a.id)).collect();
        if ids.iter().collect::<std::collections::BTreeSet<_>>().len() != ids.len() {
            return Err(Fail::new("pinned-layout-id-reused", format!("{what}: attribute ids after adding an attribute: {ids:?}")));
        }
        let k = cc.generate_user_secret_key(&mut msk1, &AccessPolicy::parse("NEW::n").unwrap()).map_err(|er| Fail::new("pinned-layout-object-unusable", short_err(&er)))?;
        let (s, x) = cc.encaps(&mpk2, &AccessPolicy::parse("NEW::n").unwrap()).map_err(|er| Fail::new("pinned-layout-object-unusable", short_err(&er)))?;
        if !matches!(cc.decaps(&k, &x), Ok(Some(v)) if v == s) {
            return Err(Fail::new("pinned-layout-object-unusable", format!("{what}: key of the loaded master key does not open an encapsulation under its public key")));
        }
        // broadcast encapsulation under the loaded old-layout public key opens with that key too
        let (s, x) = cc.encaps(&mpk1, &AccessPolicy::Broadcast).map_err(|er| Fail::new("pinned-layout-object-unusable", short_err(&er)))?;
        if !matches!(cc.decaps(&k, &x), Ok(Some(v)) if v == s) {
            return Err(Fail::new("pinned-layout-object-unusable", format!("{what}: broadcast encapsulation under the loaded public key does not open")));
        }
        col.nontrivial(&("pinned-layout", shape));
    }
    col.class("pinned-layout:verified");
    Ok(())
}

// ------------------------------------------------------------------ golden vectors

fn hexfield(v: &serde_json::Value, k: &str) -> Result<Vec<u8>, Fail> {
    wire::unhex(v[k].as_str().unwrap_or("")).ok_or_else(|| Fail::new("golden-format", format!("field {k}")))
}

pub fn golden(col: &Collector) -> CheckResult {
    let path = format!("{}/golden/{}.json", crate::verif_root(), wire::CONFIG);
    let text = std::fs::read_to_string(&path).map_err(|e| Fail::new("golden-missing", format!("{path}: {e}")))?;
    let g: serde_json::Value = serde_json::from_str(&text).map_err(|e| Fail::new("golden-format", e.to_string()))?;
    let cc = Covercrypt::default();
    let gf = |what: &str, e: String| Fail::new(format!("golden-object-unreadable:{what}"), format!("object serialized by the pinned release no longer deserializes ({what}): {e}"));
    let msk_b = hexfield(&g, "msk")?;
    let mut msk: MasterSecretKey = de(&msk_b).map_err(|e| gf("msk", e))?;
    let wm = WMsk::decode(&msk_b).map_err(|e| Fail::new("codec-cannot-decode-msk", format!("golden: {e}")))?;
    if wm.structure.version != 0 {
        return Err(Fail::new("golden-format", "golden structure is expected to be V1".to_string()));
    }
    col.eval(1);
    let mpk0: MasterPublicKey = de(&hexfield(&g, "mpk0")?).map_err(|e| gf("mpk0", e))?;
    let mpk1: MasterPublicKey = de(&hexfield(&g, "mpk1")?).map_err(|e| gf("mpk1", e))?;
    let _ = mpk0;
    WMpk::decode(&hexfield(&g, "mpk1")?).map_err(|e| Fail::new("codec-cannot-decode-mpk", format!("golden: {e}")))?;
    let _s: AccessStructure = de(&hexfield(&g, "structure")?).map_err(|e| gf("structure", e))?;
    WStructure::decode(&hexfield(&g, "structure")?).map_err(|e| Fail::new("codec-cannot-decode-structure", format!("golden: {e}")))?;
    col.eval(3);
    // the master key's chains as the model of the generator history expects: rekey of DPT::FIN => 8 rights with 2 revisions
    let two = wm.rights.iter().filter(|(_, c)| c.len() == 2).count();
    if wm.rights.len() != 16 || two != 8 {
        return Err(Fail::new("golden-msk-shape", format!("golden master key decodes to {} rights, {} with two revisions (expected 16 / 8)", wm.rights.len(), two)));
    }
    let mut users: Vec<(String, UserSecretKey)> = vec![];
    for u in g["users"].as_array().cloned().unwrap_or_default() {
        let b = hexfield(&u, "usk")?;
        let k: UserSecretKey = de(&b).map_err(|e| gf("usk", e))?;
        WUsk::decode(&b).map_err(|e| Fail::new("codec-cannot-decode-usk", format!("golden: {e}")))?;
        users.push((u["policy"].as_str().unwrap_or("").to_string(), k));
        col.eval(1);
    }
    let mut encs: Vec<(String, Vec<u8>, XEnc)> = vec![];
    for e in g["encs"].as_array().cloned().unwrap_or_default() {
        let b = hexfield(&e, "enc")?;
        let x: XEnc = de(&b).map_err(|e| gf("xenc", e))?;
        WXEnc::decode(&b).map_err(|e| Fail::new("codec-cannot-decode-xenc", format!("golden: {e}")))?;
        encs.push((e["policy"].as_str().unwrap_or("").to_string(), hexfield(&e, "secret")?, x));
        col.eval(1);
    }
    // golden keys open golden encapsulations to the recorded secrets, exactly as recorded
    let opens = g["opens"].as_array().cloned().unwrap_or_default();
    for (ui, (up, u)) in users.iter().enumerate() {
        for (ei, (ep, secret, x)) in encs.iter().enumerate() {
            let want = opens[ui][ei].as_bool().unwrap_or(false);
            let r = cc.decaps(u, x).map_err(|e| Fail::new("golden-decaps-error", short_err(&e)))?;
            col.eval(1);
            match (want, r) {
                (true, Some(s)) if s.to_vec() == *secret => {
                    col.nontrivial(&("golden-open", ui, ei));
                }
                (false, None) => {
                    col.nontrivial(&("golden-refuse", ui, ei));
                }
                (w, r) => {
                    return Err(Fail::new("golden-verdict-changed", format!("golden key '{up}' vs golden encapsulation '{ep}': pinned release says opens={w}, this tree returns {}", if r.is_some() { "a secret" } else { "None" })));
                }
            }
        }
    }
    // golden headers
    for h in g["headers"].as_array().cloned().unwrap_or_default() {
        let hb = hexfield(&h, "header")?;
        let eh: EncryptedHeader = de(&hb).map_err(|e| gf("header", e))?;
        let aad = h["aad"].as_str().and_then(wire::unhex);
        let md = h["metadata"].as_str().and_then(wire::unhex);
        let clear = eh.decrypt(&cc, &users[0].1, aad.as_deref()).map_err(|e| Fail::new("golden-header-error", short_err(&e)))?.ok_or_else(|| Fail::new("golden-header-refused", "golden key no longer opens golden header".to_string()))?;
        if clear.secret.to_vec() != hexfield(&h, "secret")? || clear.metadata.clone().unwrap_or_default() != md.clone().unwrap_or_default() {
            return Err(Fail::new("golden-header-differs", "golden header decrypts to different data".to_string()));
        }
        let _c: CleartextHeader = de(&hexfield(&h, "cleartext")?).map_err(|e| gf("cleartext", e))?;
        col.eval(2);
    }
    // the golden master key still works: refresh golden keys, rekey, generate keys that open new encapsulations
    for (up, u) in users.iter() {
        for keep in [true, false] {
            let mut m2: MasterSecretKey = de(&msk_b).map_err(|e| gf("msk", e))?;
            let mut k = u.clone();
            cc.refresh_usk(&mut m2, &mut k, keep).map_err(|e| Fail::new("golden-refresh-failed", format!("golden master key refuses golden key '{up}' (keep={keep}): {}", short_err(&e))))?;
            // refreshed keys open encapsulations made under the latest golden public key when authorized
            for (ei, (_ep, secret, x)) in encs.iter().enumerate().skip(4) {
                let pos = users.iter().position(|(p, _)| p == up).unwrap();
                // rights do not change by refresh: after refresh every key is up to date, so the verdict is the name-level one
                let name_level = [[true, false, true], [true, true, true], [false, true, true]][pos][ei - 4];
                let r = cc.decaps(&k, x).map_err(|e| Fail::new("golden-decaps-error", short_err(&e)))?;
                col.eval(1);
                if r.is_some() != name_level || r.map(|s| s.to_vec() != *secret).unwrap_or(false) {
                    return Err(Fail::new("golden-refreshed-verdict", format!("golden key '{up}' refreshed (keep={keep}) vs encapsulation #{ei}: expected opens={name_level}")));
                }
            }
        }
    }
    let new_mpk = cc.rekey(&mut msk, &AccessPolicy::parse("SEC::TOP").unwrap()).map_err(|e| Fail::new("golden-rekey-failed", short_err(&e)))?;
    let nk = cc.generate_user_secret_key(&mut msk, &AccessPolicy::parse("SEC::TOP && DPT::HR").unwrap()).map_err(|e| Fail::new("golden-keygen-failed", short_err(&e)))?;
    let (s, x) = cc.encaps(&new_mpk, &AccessPolicy::parse("SEC::TOP && DPT::HR").unwrap()).map_err(|e| Fail::new("golden-encaps-failed", short_err(&e)))?;
    match cc.decaps(&nk, &x) {
        Ok(Some(k)) if k == s => {}
        _ => return Err(Fail::new("golden-new-key-cannot-open", "key generated by the golden master key cannot open a new encapsulation".to_string())),
    }
    if cc.encaps(&mpk1, &AccessPolicy::parse("DPT::Low Secret é").unwrap()).is_ok() {
        return Err(Fail::new("golden-disabled-encryptable", "golden public key allows encapsulating for the attribute disabled in the golden history".to_string()));
    }
    // adding an attribute to the golden (V1) structure must not reuse an id
    let before: Vec<u64> = wm.structure.dims.iter().flat_map(|d| d.attrs.iter().map(|a| a.id)).collect();
    msk.access_structure.add_attribute(qa("DPT", "NEW"), hint(false), None).map_err(|e| Fail::new("golden-add-attribute-failed", short_err(&e)))?;
    let ws = WStructure::decode(&ser(&msk.access_structure)?).map_err(|e| Fail::new("codec-cannot-decode-structure", e))?;
    let new_id = ws.attr("DPT", "NEW").map(|a| a.id).unwrap_or(0);
    if before.contains(&new_id) {
        return Err(Fail::new("golden-id-reused", format!("attribute added to the golden structure received id {new_id}, already in use")));
    }
    col.eval(4);
    col.class("golden:verified");
    col.sample(|| json!({"kind": "golden", "config": wire::CONFIG, "objects": {"users": users.len(), "encapsulations": encs.len(), "headers": 4}, "file": path}));
    Ok(())
}

pub fn run(ctx: &Ctx, col: &Collector) -> Meta {
    if let Err(f) = crate::runner::guarded(|| golden(col)) {
        report_fail(col, "golden", f, json!({"config": wire::CONFIG}));
        return meta();
    }
    if let Err(f) = crate::runner::guarded(|| big_objects(col)) {
        report_fail(col, "big-objects", f, json!({"config": wire::CONFIG}));
        return meta();
    }
    if let Err(f) = crate::runner::guarded(|| long_chains(col)) {
        report_fail(col, "long-chains", f, json!({"config": wire::CONFIG}));
        return meta();
    }
    if let Err(f) = crate::runner::guarded(|| wide_dimensions(col)) {
        report_fail(col, "wide-dimensions", f, json!({"config": wire::CONFIG}));
        return meta();
    }
    if let Err(f) = crate::runner::guarded(|| pinned_layout(col)) {
        report_fail(col, "pinned-layout", f, json!({"config": wire::CONFIG}));
        return meta();
    }
    run_cases(&ctx.run_cfg(ctx.n(1500, 30_000), 2), "header", header_strategy, col, check_header);
    let h = hc(ctx.thorough);
    run_hist(ctx, col, &h, ctx.n(3000, 25_000));
    for c in ["header:metadata-absent", "header:metadata-empty", "header:metadata-non-empty", "golden:verified", "big-objects:verified", "long-chains:verified", "pinned-layout:verified", "wide-dimensions:verified"] {
        if col.class_count(c) == 0 && !col.stopped() {
            col.note(format!("generator unhealthy: class {c} empty"));
        }
    }
    meta()
}

fn meta() -> Meta {
    Meta {
        level: "exploration",
        rule: "(1) random histories over the whole API with a serialization round-trip of the master key, latest public key, a user key or an encapsulation injected before random steps (the deserialized object replaces the original): for every round-trip, serialize().len() == length(), write() returns the number of bytes appended, deserialize(serialize(x)) == x and the independent codec decodes the bytes to the model state; every later Ok/Err outcome, serialized state and decapsulation verdict must still agree with the reference model; (2) encrypted headers and cleartext headers for all metadata / authentication-data shapes and flavours (strict round-trip, documented size formula, deserialized header decrypts to the same data, absent = empty metadata on the wire); (3) golden vectors serialized by the pinned release for this configuration: all objects deserialize and decode, golden keys open golden encapsulations / headers exactly as recorded, the golden master key refreshes golden keys, rekeys, issues keys that open new encapsulations, and an attribute added to the golden V1 structure gets a fresh id; (4) fixed large objects crossing every LEB128 boundary (630 rights, 240 targets, ids >= 140, long names, > 127 users) and one right rotated 131 times with a key refreshed after every rotation (chains of 126-132 revisions in master key and user key): strict round-trips, codec agreement, deserialized objects used; a hierarchy of 130 levels and an anarchy of 130 attributes with attribute ids beyond 16 384 (two-byte attribute counts, three-byte ids): same checks plus the cover verdicts of top / middle keys on top / middle / bottom targets; (5) current master keys, public keys and structures of four shapes (among them the empty structure of a fresh setup) re-encoded in the pinned release's layout through the codec must load to the same content and keep working. Non-trivial = history with a round-trip followed by >= 3 asserted decapsulation outcomes or containing a rekey / effective disable; header shape class; each golden (key, encapsulation) pair".into(),
        exhaustive: false,
        assumptions: vec!["golden vectors were produced from commit 8f3c295 (golden/gen) and their open/refuse matrix was checked by hand against the name-level cover relation".into()],
    }
}

pub fn replay(kind: &str, case: &serde_json::Value, col: &Collector) -> CheckResult {
    match kind {
        "history" => replay_hist(&hc(false), case, col),
        "header" => {
            let c: HeaderCase = serde_json::from_value(case.clone()).map_err(|e| Fail::new("replay-format", e.to_string()))?;
            check_header(&c, col)
        }
        "golden" => golden(col),
        "big-objects" => big_objects(col),
        "long-chains" => long_chains(col),
        "pinned-layout" => pinned_layout(col),
        "wide-dimensions" => wide_dimensions(col),
        k => Err(Fail::new("replay-format", format!("unknown kind {k}"))),
    }
}
