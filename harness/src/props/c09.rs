//! C09 — every API call succeeds or fails exactly as its contract says.

use super::hist::*;
use super::Meta;
use crate::report::{CheckResult, Collector};
use crate::Ctx;

fn profile(thorough: bool) -> Profile {
    Profile {
        add_dim: 3,
        del_dim: 2,
        add_attr: 9,
        del_attr: 7,
        rename: 4,
        disable: 5,
        update: 8,
        rekey: 9,
        prune: 6,
        keygen: 9,
        refresh: 12,
        encaps: 10,
        encaps_wide: 2,
        encaps_for: 6,
        check: 3,
        roundtrip: 3,
        recaps: 3,
        stale: 2,
        forged: 3,
        bad_pct: 22,
        min_ops: 1,
        max_ops: if thorough { 60 } else { 30 },
        max_dims: 3,
        max_attrs: 3,
        max_rights: if thorough { 100 } else { 48 },
        ..Profile::zero()
    }
}

fn nontrivial(o: &Outcome) -> bool {
    o.events.iter().filter(|e| e.starts_with("err:")).count() >= 2
        && (o.events.contains("refresh-after-delete:keep")
            || o.events.contains("refresh-after-delete:nokeep")
            || o.events.contains("refresh-of-key-holding-removed-revision")
            || o.events.contains("forged-refresh")
            || o.events.contains("err:born-disabled")
            || o.events.contains("err:rekey-unheld")
            || o.events.contains("err:enc-disabled"))
}

const CLASSES: &[&str] = &[
    "refresh-after-delete:keep",
    "refresh-after-delete:nokeep",
    "refresh-of-key-holding-removed-revision",
    "forged-refresh",
    "stale-refresh-unknown-id",
    "stale-refresh-known-id",
    "recaps-none-recoverable",
];

pub fn hc(thorough: bool) -> HistCheck<'static> {
    HistCheck {
        focus: "C09",
        profile: profile(thorough),
        nontrivial,
        classes: CLASSES,
        required: &["refresh-after-delete:keep", "refresh-after-delete:nokeep", "refresh-of-key-holding-removed-revision", "forged-refresh", "err:born-disabled", "err:rekey-unheld", "err:keygen-unheld", "err:enc-disabled", "err:enc-not-yet-created", "err:enc-two-attrs-one-dim", "err:bad-after", "err:duplicate-attribute", "err:unknown-dimension", "err:unknown-attribute"],
        reps: 1,
        stream: 9,
    }
}

pub fn run(ctx: &Ctx, col: &Collector) -> Meta {
    let h = hc(ctx.thorough);
    run_hist(ctx, col, &h, ctx.n(6000, 40_000));
    Meta {
        level: "exploration",
        rule: "unrestricted random histories over the whole public API with ~22% invalid arguments (unknown / duplicate names, unknown `after`, two attributes of one dimension, unknown names in policies), edits without update (structure, secrets and public keys out of sync), old public keys, forged and stale-master-key refreshes; for every call the model predicts Ok or Err from the documented contract and only that distinction is asserted. Non-trivial = history with at least two distinct predicted-error classes and one of: refresh after a deletion, refresh of a key holding a removed revision, forged refresh, born-disabled update, rekey of an unheld right, encapsulation for a disabled attribute; distinct by the whole case".into(),
        exhaustive: false,
        assumptions: vec!["only the Ok/Err distinction is asserted, not the error variant".into(), "user policies whose DNF has a clause with two attributes of one dimension are not judged".into()],
    }
}

pub fn replay(_kind: &str, case: &serde_json::Value, col: &Collector) -> CheckResult {
    replay_hist(&hc(false), case, col)
}
