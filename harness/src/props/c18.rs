//! C18 — re-encapsulation with the master key preserves the audience.

use super::hist::*;
use super::Meta;
use crate::report::{CheckResult, Collector};
use crate::Ctx;

fn profile(thorough: bool) -> Profile {
    Profile {
        rekey: 10,
        prune: 5,
        disable: 5,
        del_attr: 5,
        update: 8,
        keygen: 9,
        refresh: 8,
        encaps: 12,
        encaps_wide: 6,
        encaps_for: 8,
        recaps: 18,
        check: 3,
        roundtrip: 1,
        bad_pct: 1,
        min_ops: 1,
        max_ops: if thorough { 50 } else { 25 },
        max_dims: 3,
        max_attrs: 3,
        max_rights: if thorough { 100 } else { 48 },
        ..Profile::zero()
    }
}

fn nontrivial(o: &Outcome) -> bool {
    o.events.contains("recaps-multi-target-after-change") || o.events.contains("recaps-none-recoverable")
}

const CLASSES: &[&str] = &["recaps-multi-target-after-change", "recaps-none-recoverable", "recaps-of-recaps", "multi-target-enc", "pruned-revisions", "disable-effective", "update-dropped-rights", "rekeyed"];

pub fn hc(thorough: bool) -> HistCheck<'static> {
    HistCheck {
        focus: "C18",
        profile: profile(thorough),
        nontrivial,
        classes: CLASSES,
        required: &["recaps-multi-target-after-change", "recaps-none-recoverable"],
        reps: 1,
        stream: 18,
    }
}

pub fn run(ctx: &Ctx, col: &Collector) -> Meta {
    let h = hc(ctx.thorough);
    run_hist(ctx, col, &h, ctx.n(5000, 30_000));
    Meta {
        level: "exploration",
        rule: "random histories producing encapsulations with 1-4 targets under any earlier public key, then any mix of rekey, prune, disable, delete, update, then recaps with the newest or an older public key; expected audience = targets whose (right, revision) the master key still holds, intersected with the rights the given public key publishes: recaps must fail when it is empty, otherwise return a new secret and a new encapsulation with exactly that many components, and every user key (refreshed or not) must open the new encapsulation to the new secret iff it holds the public key's revision of one of those rights. Non-trivial = recaps of a multi-target original with at least one target changed (rekeyed, pruned, disabled, deleted) before, or the all-gone failure case; distinct by the whole case".into(),
        exhaustive: false,
        assumptions: vec!["oracle = revision-level reference model".into()],
    }
}

pub fn replay(_kind: &str, case: &serde_json::Value, col: &Collector) -> CheckResult {
    replay_hist(&hc(false), case, col)
}
