//! C08 — only user keys issued by the master key are accepted for refresh.
//!
//! Fault enumeration over structural tamperings of the serialized form of issued keys, built with
//! the independent codec. Oracle: a forgery that deserializes and differs from every key this
//! master key ever issued must be refused by refresh_usk (both flags), and neither the forged key
//! nor the master key may change. Control group: every issued key is accepted.

use super::Meta;
use crate::ccx::*;
use crate::report::{CheckResult, Collector, Fail};
use crate::runner::{report_fail, run_cases};
use crate::wire::{self, WSecret, WUsk};
use crate::Ctx;
use proptest::prelude::*;
use serde::{Deserialize, Serialize};
use serde_json::json;

pub const KNOWN_SIG: &str = "kmac-unframed-stream-collision";

pub struct Fixture {
    pub cc: Covercrypt,
    pub msk_bytes: Vec<u8>,
    /// every key this master key ever issued (generation and refreshes), decoded
    pub issued: Vec<(String, UserSecretKey, WUsk)>,
    pub foreign: Vec<WUsk>,
}

fn build(cc: &Covercrypt) -> Result<MasterSecretKey, Error> {
    let (mut msk, _) = cc.setup()?;
    msk.access_structure.add_hierarchy("SEC".into())?;
    msk.access_structure.add_attribute(qa("SEC", "LOW"), hint(false), None)?;
    msk.access_structure.add_attribute(qa("SEC", "MID"), hint(true), Some("LOW"))?;
    msk.access_structure.add_attribute(qa("SEC", "TOP"), hint(false), Some("MID"))?;
    msk.access_structure.add_anarchy("DPT".into())?;
    msk.access_structure.add_attribute(qa("DPT", "FIN"), hint(false), None)?;
    msk.access_structure.add_attribute(qa("DPT", "HR"), hint(true), None)?;
    cc.update_msk(&mut msk)?;
    Ok(msk)
}

pub fn fixture() -> Result<Fixture, Fail> {
    let cc = Covercrypt::default();
    let e = |e: Error| Fail::new("fixture-failed", short_err(&e));
    let mut msk = build(&cc).map_err(e)?;
    let mut issued: Vec<(String, UserSecretKey)> = vec![];
    let pol = |s: &str| AccessPolicy::parse(s).unwrap();
    for p in ["SEC::LOW && DPT::FIN", "SEC::TOP", "DPT::HR", "SEC::LOW", "SEC::MID && DPT::HR || DPT::FIN && SEC::LOW"] {
        let k = cc.generate_user_secret_key(&mut msk, &pol(p)).map_err(e)?;
        issued.push((format!("{p} (fresh)"), k));
    }
    // rotations and refreshes: 2 and 3 revisions, partial rotations
    cc.rekey(&mut msk, &pol("SEC::LOW")).map_err(e)?;
    for i in [0usize, 3] {
        let mut k = issued[i].1.clone();
        cc.refresh_usk(&mut msk, &mut k, true).map_err(e)?;
        issued.push((format!("{} (refreshed keep, 2 revisions)", issued[i].0), k));
    }
    cc.rekey(&mut msk, &pol("DPT::FIN && SEC::LOW")).map_err(e)?;
    cc.rekey(&mut msk, &pol("DPT::HR")).map_err(e)?;
    let mut k = issued[5].1.clone();
    cc.refresh_usk(&mut msk, &mut k, true).map_err(e)?;
    issued.push(("SEC::LOW && DPT::FIN (refreshed keep twice, up to 3 revisions)".into(), k));
    let mut k = issued[2].1.clone();
    cc.refresh_usk(&mut msk, &mut k, true).map_err(e)?;
    issued.push(("DPT::HR (refreshed keep, hybridized, 2 revisions)".into(), k));
    let mut k = issued[1].1.clone();
    cc.refresh_usk(&mut msk, &mut k, false).map_err(e)?;
    issued.push(("SEC::TOP (refreshed without old secrets)".into(), k));
    let msk_bytes = ser(&msk)?;
    let mut out = vec![];
    for (n, k) in issued {
        let b = ser(&k)?;
        let w = WUsk::decode(&b).map_err(|e| Fail::new("codec-cannot-decode-usk", e))?;
        if w.encode() != b {
            return Err(Fail::new("codec-reencode-differs-usk", n));
        }
        out.push((n, k, w));
    }
    // a second master key (another authority) with the same structure
    let cc2 = Covercrypt::default();
    let mut msk2 = build(&cc2).map_err(e)?;
    let mut foreign = vec![];
    for p in ["SEC::LOW && DPT::FIN", "DPT::HR"] {
        let k = cc2.generate_user_secret_key(&mut msk2, &pol(p)).map_err(e)?;
        foreign.push(WUsk::decode(&ser(&k)?).map_err(|e| Fail::new("codec-cannot-decode-usk", e))?);
    }
    Ok(Fixture { cc, msk_bytes, issued: out, foreign })
}

#[derive(Clone, Debug, Serialize, Deserialize, Hash, PartialEq, Eq)]
pub struct ForgeCase {
    pub key: u8,
    pub other: u8,
    pub kind: u8,
    pub a: u16,
    pub b: u16,
    pub k: u8,
}

pub const KINDS: &[&str] = &[
    "add-right",
    "remove-right",
    "rename-right",
    "reorder-rights",
    "duplicate-right",
    "move-secret-between-rights",
    "swap-first-secrets",
    "split-chain-new-name",
    "split-chain-empty-name",
    "merge-adjacent-chains",
    "shift-bytes-right-to-secret",
    "shift-bytes-secret-to-right",
    "flip-flavour-flag-only",
    "classic-to-hybrid-borrowed-dk",
    "hybrid-to-classic-drop-dk",
    "hybrid-to-classic-dk-becomes-right-name",
    "alter-id-marker",
    "id-of-A-rights-of-B",
    "union-of-A-and-B",
    "key-of-another-master-key",
    "strip-signature",
    "alter-signature",
    "signature-of-other-key",
    "single-bit-flip",
    "reverse-chain",
    "drop-oldest-secret",
    "secret-from-other-key",
    "no-rights",
    "no-rights-unsigned",
    "all-chains-empty",
];

fn strategy() -> impl Strategy<Value = ForgeCase> {
    (any::<u8>(), any::<u8>(), 0u8..(KINDS.len() as u8), any::<u16>(), any::<u16>(), 1u8..=8).prop_map(|(key, other, kind, a, b, k)| ForgeCase { key, other, kind, a, b, k })
}

/// Build the forgery; None when the mutation does not apply to this key shape.
pub fn forge(fx: &Fixture, c: &ForgeCase) -> Option<(Vec<u8>, &'static str)> {
    let n_keys = fx.issued.len();
    let src = &fx.issued[c.key as usize % n_keys].2;
    let oth = &fx.issued[c.other as usize % n_keys].2;
    let mut w = src.clone();
    let nr = w.rights.len();
    let kind = KINDS[c.kind as usize % KINDS.len()];
    let a = c.a as usize;
    let b = c.b as usize;
    match kind {
        "add-right" => {
            let sec = oth.rights[b % oth.rights.len()].1[0].clone();
            let name = vec![(a % 7) as u8, 9];
            w.rights.insert(a % (nr + 1), (name, vec![sec]));
        }
        "remove-right" => {
            if nr < 2 {
                return None;
            }
            w.rights.remove(a % nr);
        }
        // a key without any right (every issued key holds at least the broadcast right)
        "no-rights" => w.rights.clear(),
        "no-rights-unsigned" => {
            w.rights.clear();
            w.signature = None;
        }
        "all-chains-empty" => {
            for (_, chain) in w.rights.iter_mut() {
                chain.clear();
            }
        }
        "rename-right" => {
            let i = a % nr;
            let mut name = w.rights[i].0.clone();
            if name.is_empty() {
                name.push((b % 5) as u8);
            } else if b % 3 == 0 {
                name.pop();
            } else {
                let j = b % name.len();
                name[j] = (name[j] + 1) % 6;
            }
            w.rights[i].0 = name;
        }
        "reorder-rights" => {
            if nr < 2 {
                return None;
            }
            let i = a % nr;
            let j = (i + 1 + b % (nr - 1)) % nr;
            w.rights.swap(i, j);
        }
        "duplicate-right" => {
            let x = w.rights[a % nr].clone();
            w.rights.insert(b % (nr + 1), x);
        }
        "move-secret-between-rights" => {
            if nr < 2 {
                return None;
            }
            let i = a % nr;
            let j = (i + 1 + b % (nr - 1)) % nr;
            if w.rights[i].1.len() < 2 {
                // moving the only secret would leave an empty chain: still a distinct arrangement
                let s = w.rights[i].1[0].clone();
                w.rights[j].1.push(s);
            } else {
                let s = w.rights[i].1.pop().unwrap();
                w.rights[j].1.push(s);
            }
        }
        "swap-first-secrets" => {
            if nr < 2 {
                return None;
            }
            let i = a % nr;
            let j = (i + 1 + b % (nr - 1)) % nr;
            let si = w.rights[i].1[0].clone();
            let sj = w.rights[j].1[0].clone();
            if si == sj {
                return None;
            }
            w.rights[i].1[0] = sj;
            w.rights[j].1[0] = si;
        }
        "split-chain-new-name" | "split-chain-empty-name" => {
            let cands: Vec<usize> = (0..nr).filter(|i| w.rights[*i].1.len() >= 2).collect();
            if cands.is_empty() {
                return None;
            }
            let i = cands[a % cands.len()];
            let at = 1 + b % (w.rights[i].1.len() - 1);
            let tail = w.rights[i].1.split_off(at);
            let name = if kind == "split-chain-empty-name" { vec![] } else { vec![(b % 6) as u8] };
            w.rights.insert(i + 1, (name, tail));
        }
        "merge-adjacent-chains" => {
            if nr < 2 {
                return None;
            }
            let i = a % (nr - 1);
            let (_, tail) = w.rights.remove(i + 1);
            w.rights[i].1.extend(tail);
        }
        "shift-bytes-right-to-secret" => {
            // r_i loses its last k bytes, which become the head of its first secret; the bytes
            // pushed out of each following fixed-size field cascade into the next right name
            let cands: Vec<usize> = (0..nr.saturating_sub(1)).filter(|i| w.rights[*i].0.len() >= 1 && w.rights[*i].1.iter().all(|s| !s.hyb)).collect();
            if cands.is_empty() {
                return None;
            }
            let i = cands[a % cands.len()];
            let k = (c.k as usize).min(w.rights[i].0.len());
            let mut stream: Vec<u8> = vec![];
            let cut = w.rights[i].0.len() - k;
            stream.extend_from_slice(&w.rights[i].0[cut..]);
            for s in &w.rights[i].1 {
                stream.extend_from_slice(&s.sk);
            }
            w.rights[i].0.truncate(cut);
            let mut off = 0;
            for s in w.rights[i].1.iter_mut() {
                s.sk = stream[off..off + 32].to_vec();
                off += 32;
            }
            let rest = stream[off..].to_vec();
            let mut name = rest;
            name.extend_from_slice(&w.rights[i + 1].0);
            w.rights[i + 1].0 = name;
        }
        "shift-bytes-secret-to-right" => {
            // r_i grows by the first k bytes of its first secret; every following field slides
            let cands: Vec<usize> = (0..nr.saturating_sub(1)).filter(|i| w.rights[*i].1.iter().all(|s| !s.hyb) && w.rights[*i + 1].0.len() >= 1).collect();
            if cands.is_empty() {
                return None;
            }
            let i = cands[a % cands.len()];
            let k = (c.k as usize).min(w.rights[i + 1].0.len());
            let mut stream: Vec<u8> = vec![];
            for s in &w.rights[i].1 {
                stream.extend_from_slice(&s.sk);
            }
            stream.extend_from_slice(&w.rights[i + 1].0[..k]);
            w.rights[i].0.extend_from_slice(&stream[..k]);
            let mut off = k;
            for s in w.rights[i].1.iter_mut() {
                s.sk = stream[off..off + 32].to_vec();
                off += 32;
            }
            w.rights[i + 1].0.drain(..k);
        }
        "flip-flavour-flag-only" => {
            // re-encode by hand: toggle one flavour flag without touching the bytes that follow
            let mut bytes = src.encode();
            let fields = wire::fields_of("usk", &bytes).ok()?;
            let flags: Vec<&wire::Field> = fields.iter().filter(|f| f.kind == "secret.flavour").collect();
            if flags.is_empty() {
                return None;
            }
            let f = flags[a % flags.len()];
            bytes[f.off] ^= 1;
            return Some((bytes, kind));
        }
        "classic-to-hybrid-borrowed-dk" => {
            let donors: Vec<&WSecret> = oth.rights.iter().flat_map(|(_, c)| c.iter()).filter(|s| s.hyb).collect();
            let cands: Vec<(usize, usize)> = (0..nr).flat_map(|i| (0..w.rights[i].1.len()).map(move |j| (i, j))).filter(|(i, j)| !w.rights[*i].1[*j].hyb).collect();
            if donors.is_empty() || cands.is_empty() {
                return None;
            }
            let (i, j) = cands[a % cands.len()];
            w.rights[i].1[j].hyb = true;
            w.rights[i].1[j].dk = donors[b % donors.len()].dk.clone();
        }
        "hybrid-to-classic-drop-dk" | "hybrid-to-classic-dk-becomes-right-name" => {
            let cands: Vec<(usize, usize)> = (0..nr).flat_map(|i| (0..w.rights[i].1.len()).map(move |j| (i, j))).filter(|(i, j)| w.rights[*i].1[*j].hyb).collect();
            if cands.is_empty() {
                return None;
            }
            let (i, j) = cands[a % cands.len()];
            let dk = std::mem::take(&mut w.rights[i].1[j].dk);
            w.rights[i].1[j].hyb = false;
            if kind == "hybrid-to-classic-dk-becomes-right-name" {
                // the dk bytes become the name of a new right holding the rest of the chain
                let tail = w.rights[i].1.split_off(j + 1);
                if tail.is_empty() {
                    return None;
                }
                w.rights.insert(i + 1, (dk, tail));
            }
        }
        "alter-id-marker" => {
            let i = a % w.id.len();
            w.id[i][b % 31] ^= 1 << (c.k % 8);
        }
        "id-of-A-rights-of-B" => {
            if oth.rights == w.rights {
                return None;
            }
            w.rights = oth.rights.clone();
            if c.k % 2 == 0 {
                w.signature = oth.signature.clone();
            }
        }
        "union-of-A-and-B" => {
            let mut extra: Vec<_> = oth.rights.iter().filter(|(r, _)| !w.rights.iter().any(|(x, _)| x == r)).cloned().collect();
            if extra.is_empty() {
                return None;
            }
            w.rights.append(&mut extra);
        }
        "key-of-another-master-key" => {
            w = fx.foreign[a % fx.foreign.len()].clone();
            if c.k % 2 == 0 {
                // graft the id of an issued key
                w.id = src.id.clone();
            }
        }
        "strip-signature" => w.signature = None,
        "alter-signature" => {
            let s = w.signature.as_mut()?;
            s[a % 32] ^= 1 << (b % 8);
        }
        "signature-of-other-key" => {
            if oth.signature == w.signature {
                return None;
            }
            w.signature = oth.signature.clone();
        }
        "single-bit-flip" => {
            let mut bytes = src.encode();
            let n = bytes.len();
            let off = (a * 65536 + b) % n;
            bytes[off] ^= 1 << (c.k % 8);
            return Some((bytes, kind));
        }
        "reverse-chain" => {
            let cands: Vec<usize> = (0..nr).filter(|i| w.rights[*i].1.len() >= 2).collect();
            if cands.is_empty() {
                return None;
            }
            let i = cands[a % cands.len()];
            w.rights[i].1.reverse();
        }
        "drop-oldest-secret" => {
            let cands: Vec<usize> = (0..nr).filter(|i| w.rights[*i].1.len() >= 2).collect();
            if cands.is_empty() {
                return None;
            }
            let i = cands[a % cands.len()];
            w.rights[i].1.pop();
        }
        "secret-from-other-key" => {
            let i = a % nr;
            let (_, oc) = &oth.rights[b % oth.rights.len()];
            let s = oc[0].clone();
            if w.rights[i].1.contains(&s) {
                return None;
            }
            w.rights[i].1[0] = s;
        }
        _ => return None,
    }
    Some((w.encode(), kind))
}

pub fn judge(fx: &Fixture, bytes: &[u8], kind: &str, shape: &str, col: &Collector) -> CheckResult {
    let forged: UserSecretKey = match de(bytes) {
        Ok(k) => k,
        Err(_) => {
            col.class("forgeries:rejected-at-deserialization");
            return Ok(());
        }
    };
    if let Some((_, _, iw)) = fx.issued.iter().find(|(_, k, _)| *k == forged) {
        let ib = iw.encode();
        if ib == bytes {
            col.class("forgeries:identical-to-an-issued-key(skipped)");
            return Ok(());
        }
        // different bytes, equal object. The ML-KEM decoder of the `ml-kem` dependency reduces
        // non-canonical 12-bit coefficients, so bytes that differ only inside a decapsulation key
        // can decode to the same key: not judged. Any other re-arrangement of the serialized form
        // that is silently "repaired" by deserialization is an accepted tampering.
        let only_dk = ib.len() == bytes.len() && {
            let mut dk_ranges: Vec<(usize, usize)> = vec![];
            if let Ok(fields) = wire::fields_of("usk", &ib) {
                for f in fields.iter().filter(|f| f.kind == "secret.flavour" && f.value == 1) {
                    dk_ranges.push((f.off + f.len + wire::SCALAR, f.off + f.len + wire::SCALAR + wire::DK));
                }
            }
            ib.iter().zip(bytes.iter()).enumerate().all(|(i, (a, b))| a == b || dk_ranges.iter().any(|(lo, hi)| i >= *lo && i < *hi))
        };
        if only_dk {
            col.class("forgeries:non-canonical-mlkem-encoding-of-an-issued-key(not judged)");
            return Ok(());
        }
        col.class(&format!("equal-object-from-different-bytes:{kind}"));
        let mut msk: MasterSecretKey = de(&fx.msk_bytes).map_err(|e| Fail::new("msk-snapshot-unreadable", e))?;
        let mut k = forged.clone();
        if with_cc(|cc| cc.refresh_usk(&mut msk, &mut k, true)).is_ok() {
            return Err(Fail::new(format!("rearranged-bytes-accepted:{kind}"), format!("a re-arrangement ({kind}) of the serialized form of issued key [{shape}] deserializes to the issued key and is accepted by refresh_usk although these bytes were never issued")));
        }
        return Ok(());
    }
    col.class("forgeries:deserialized");
    col.class(&format!("kind:{kind}"));
    col.nontrivial(&(kind, shape, bytes.len()));
    let wf = WUsk::decode(bytes).ok();
    for keep in [false, true] {
        let mut msk: MasterSecretKey = de(&fx.msk_bytes).map_err(|e| Fail::new("msk-snapshot-unreadable", e))?;
        let mut k = forged.clone();
        let r = with_cc(|cc| cc.refresh_usk(&mut msk, &mut k, keep));
        match r {
            Err(_) => {
                if k != forged {
                    return Err(Fail::new("forged-key-modified-by-failed-refresh", format!("{kind}: refresh refused the forgery but modified it")));
                }
                let fresh: MasterSecretKey = de(&fx.msk_bytes).map_err(|e| Fail::new("msk-snapshot-unreadable", e))?;
                if msk != fresh {
                    return Err(Fail::new("msk-modified-by-failed-refresh", format!("{kind}: refresh refused the forgery but modified the master key")));
                }
                // the same in-memory master key first refreshes the genuine key the forgery was
                // made from, then sees the forgery: what it learnt from the first call must not
                // vouch for the second
                if let Some((_, genuine, _)) = fx.issued.iter().find(|(n, _, _)| n == shape) {
                    let mut msk = fresh;
                    let mut g = genuine.clone();
                    if with_cc(|cc| cc.refresh_usk(&mut msk, &mut g, keep)).is_ok() {
                        let before: MasterSecretKey = de(&ser(&msk)?).map_err(|e| Fail::new("msk-snapshot-unreadable", e))?;
                        let mut k = forged.clone();
                        col.class("forgeries:presented-after-the-genuine-key");
                        match with_cc(|cc| cc.refresh_usk(&mut msk, &mut k, keep)) {
                            Err(_) => {
                                if k != forged || msk != before {
                                    return Err(Fail::new("forged-key-or-msk-modified-by-failed-refresh", format!("{kind}: refresh (after a refresh of the genuine key) refused the forgery but modified it or the master key")));
                                }
                            }
                            Ok(()) => {
                                return Err(Fail::new(format!("forged-key-accepted-after-genuine:{kind}"), format!("refresh_usk(keep={keep}) refused a forged user key ({kind}) of key shape [{shape}] presented alone, but accepted it after the same master key object had refreshed the genuine key")));
                            }
                        }
                    }
                }
            }
            Ok(()) => {
                // accepted. Is it the listed finding? same unframed MAC input stream + same signature as an issued key
                let collision = wf.as_ref().map(|w| fx.issued.iter().any(|(_, _, iw)| iw.mac_stream() == w.mac_stream() && iw.signature == w.signature)).unwrap_or(false);
                if collision {
                    col.class(&format!("known-collision-accepted:{kind}"));
                    return Err(Fail::new(KNOWN_SIG, format!("forgery ({kind}) of key shape [{shape}] whose unframed MAC input stream is byte-identical to that of an issued key is accepted by refresh_usk(keep={keep})")));
                }
                return Err(Fail::new(format!("forged-key-accepted:{kind}"), format!("refresh_usk(keep={keep}) accepted a forged user key ({kind}) on key shape [{shape}]; its MAC input stream differs from every issued key's")));
            }
        }
    }
    Ok(())
}

pub fn check_case(fx: &Fixture, c: &ForgeCase, col: &Collector) -> CheckResult {
    let Some((bytes, kind)) = forge(fx, c) else {
        col.class("not-applicable-to-shape");
        return Ok(());
    };
    let src = &fx.issued[c.key as usize % fx.issued.len()];
    judge(fx, &bytes, kind, &src.0, col)
}

fn control_group(fx: &Fixture, col: &Collector) -> CheckResult {
    for (name, key, w) in &fx.issued {
        for keep in [false, true] {
            // after a serialization round-trip
            let mut k: UserSecretKey = de(&w.encode()).map_err(|e| Fail::new("roundtrip-deserialize-failed:usk", e))?;
            if &k != key {
                return Err(Fail::new("roundtrip-not-equal:usk", name.clone()));
            }
            let mut msk: MasterSecretKey = de(&fx.msk_bytes).map_err(|e| Fail::new("msk-snapshot-unreadable", e))?;
            col.eval(1);
            if let Err(e) = fx.cc.refresh_usk(&mut msk, &mut k, keep) {
                return Err(Fail::new("issued-key-refused", format!("issued key [{name}] refused by refresh_usk(keep={keep}): {}", short_err(&e))));
            }
            col.class("control:issued-key-accepted");
        }
    }
    Ok(())
}

fn all_bit_flips(ctx: &Ctx, fx: &Fixture, col: &Collector) {
    // smallest issued keys only (classic): every bit
    let mut small: Vec<&(String, UserSecretKey, WUsk)> = fx.issued.iter().filter(|(_, _, w)| w.rights.iter().all(|(_, c)| c.iter().all(|s| !s.hyb))).collect();
    small.sort_by_key(|(_, _, w)| w.encode().len());
    for (name, _, w) in small.into_iter().take(if ctx.thorough { 3 } else { 1 }) {
        let bytes = w.encode();
        let n = bytes.len() as u64 * 8;
        crate::runner::par_for(ctx.threads, n, col, |i| {
            let mut b = bytes.clone();
            b[(i / 8) as usize] ^= 1 << (i % 8);
            col.eval(1);
            if let Err(f) = crate::runner::guarded(|| judge(fx, &b, "single-bit-flip", name, col)) {
                report_fail(col, "usk-bitflip", f, json!({"key": name, "bit": i}));
            }
        });
        col.class_n("sweep:all-bits-of-small-key", n);
    }
}

pub fn run(ctx: &Ctx, col: &Collector) -> Meta {
    let fx = match fixture() {
        Ok(f) => f,
        Err(f) => {
            report_fail(col, "forge", f, json!({}));
            return meta();
        }
    };
    for (n, _, w) in fx.issued.iter().take(4) {
        col.sample(|| json!({"issued_key": n, "rights": w.rights.len(), "chain_lengths": w.rights.iter().map(|(_, c)| c.len()).collect::<Vec<_>>(), "hybridized_secrets": w.rights.iter().flat_map(|(_, c)| c.iter()).filter(|s| s.hyb).count(), "bytes": w.encode().len()}));
    }
    if let Err(f) = crate::runner::guarded(|| control_group(&fx, col)) {
        report_fail(col, "control", f, json!({}));
        return meta();
    }
    all_bit_flips(ctx, &fx, col);
    run_cases(&ctx.run_cfg(ctx.n(60_000, 1_000_000), 1), "forge", strategy, col, |c, col| check_case(&fx, c, col));
    for k in KINDS {
        // toggling a flavour flag alone changes the sizes that follow: such forgeries are
        // expected to die at deserialization
        // the shifts / re-readings only deserialize when the shifted bytes happen to form a
        // canonical scalar of the freshly drawn secrets, and depend on the (hash-ordered) position
        // of the rights: their frequency is not a property of the generator
        if *k == "flip-flavour-flag-only" || k.starts_with("shift-bytes") || *k == "hybrid-to-classic-dk-becomes-right-name" {
            continue;
        }
        if col.class_count(&format!("kind:{k}")) == 0 && !col.stopped() {
            col.note(format!("generator unhealthy: no deserializable forgery of kind {k}"));
        }
    }
    meta()
}

fn meta() -> Meta {
    Meta {
        level: "fault_enumeration",
        rule: format!("issued keys: 10 keys with 2-12 rights, 1-3 revisions, classic / hybridized / mixed secrets, fresh or refreshed (with and without old secrets), plus keys of a second master key; forgeries built with the independent codec from generated (key, other key, kind, positions, k) tuples, kinds = {KINDS:?}, plus every single-bit flip of the smallest issued key; every forgery that deserializes and differs from all issued keys is refreshed with both flags against a fresh copy of the master key and must be refused with key and master key unchanged; control group: every issued key is accepted after a round-trip. Non-trivial = forgery that deserializes; distinct by (kind, source key shape, length)"),
        exhaustive: false,
        assumptions: vec![
            "the tracing points `ps` of a user key are outside 'identifier, rights and secrets' and are not judged".into(),
            format!("listed finding {KNOWN_SIG}: accepted forgeries whose unframed MAC input stream and signature equal those of an issued key are counted, not reported as new"),
        ],
    }
}

pub fn replay(kind: &str, case: &serde_json::Value, col: &Collector) -> CheckResult {
    let fx = fixture()?;
    match kind {
        "forge" => {
            let c: ForgeCase = serde_json::from_value(case.clone()).map_err(|e| Fail::new("replay-format", e.to_string()))?;
            // the fixture draws fresh random secrets: a shifted scalar is canonical only sometimes,
            // so a stored case is retried on several fixtures
            let mut last = check_case(&fx, &c, col);
            for _ in 0..12 {
                if last.is_err() {
                    break;
                }
                let fx2 = fixture()?;
                last = check_case(&fx2, &c, col);
            }
            last
        }
        "control" => control_group(&fx, col),
        "usk-bitflip" => {
            let name = case["key"].as_str().unwrap_or("");
            let bit = case["bit"].as_u64().unwrap_or(0);
            let Some((n, _, w)) = fx.issued.iter().find(|(n, _, _)| n == name) else { return Ok(()) };
            let mut b = w.encode();
            let i = bit % (b.len() as u64 * 8);
            b[(i / 8) as usize] ^= 1 << (i % 8);
            judge(&fx, &b, "single-bit-flip", n, col)
        }
        k => Err(Fail::new("replay-format", format!("unknown kind {k}"))),
    }
}
