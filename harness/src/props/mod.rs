//! One module per property; `run` dispatches on the id.

use crate::report::{CheckResult, Collector, Fail};
use crate::Ctx;

pub mod c15;
pub mod c17;
pub mod hist;
pub mod c01;
pub mod c03;
pub mod c19;
pub mod c13;
pub mod c14;
pub mod c16;
pub mod c12;
pub mod c11;
pub mod c08;
pub mod c07;
pub mod c18;
pub mod c10;
pub mod c09;
pub mod c06;
pub mod c05;
pub mod c04;

pub struct Meta {
    pub level: &'static str,
    pub rule: String,
    pub exhaustive: bool,
    pub assumptions: Vec<String>,
}

/// The history profile of a property whose check is a model-based history check.
pub fn hist_check(id: &str, thorough: bool) -> Option<hist::HistCheck<'static>> {
    Some(match id {
        "C03" => c03::hc(thorough),
        "C04" => c04::hc(thorough),
        "C05" => c05::hc(thorough),
        "C06" => c06::hc(thorough),
        "C09" => c09::hc(thorough),
        "C10" => c10::hc(thorough),
        "C11" => c11::hc(thorough),
        "C13" => c13::hc(thorough),
        "C17" => c17::hc(thorough),
        "C18" => c18::hc(thorough),
        _ => return None,
    })
}

pub fn run(ctx: &Ctx, col: &Collector) -> Meta {
    match ctx.id.as_str() {
        "C15" => c15::run(ctx, col),
        "C01" | "C02" => c01::run(ctx, col),
        "C03" => c03::run(ctx, col),
        "C19" => c19::run(ctx, col),
        "C13" => c13::run(ctx, col),
        "C17" => c17::run(ctx, col),
        "C14" => c14::run(ctx, col),
        "C16" => c16::run(ctx, col),
        "C12" => c12::run(ctx, col),
        "C11" => c11::run(ctx, col),
        "C08" => c08::run(ctx, col),
        "C07" => c07::run(ctx, col),
        "C18" => c18::run(ctx, col),
        "C10" => c10::run(ctx, col),
        "C09" => c09::run(ctx, col),
        "C06" => c06::run(ctx, col),
        "C05" => c05::run(ctx, col),
        "C04" => c04::run(ctx, col),
        other => {
            eprintln!("unknown property id {other}");
            std::process::exit(2);
        }
    }
}

/// Re-execute one stored case (no generator involved).
pub fn replay(ctx: &Ctx, kind: &str, case: &serde_json::Value, col: &Collector) -> CheckResult {
    match ctx.id.as_str() {
        "C15" => c15::replay(kind, case, col),
        "C01" | "C02" => c01::replay(ctx, kind, case, col),
        "C03" => c03::replay(kind, case, col),
        "C19" => c19::replay(kind, case, col),
        "C13" => c13::replay(kind, case, col),
        "C17" => c17::replay(kind, case, col),
        "C14" => c14::replay(kind, case, col),
        "C16" => c16::replay(kind, case, col),
        "C12" => c12::replay(kind, case, col),
        "C11" => c11::replay(kind, case, col),
        "C08" => c08::replay(kind, case, col),
        "C07" => c07::replay(kind, case, col),
        "C18" => c18::replay(kind, case, col),
        "C10" => c10::replay(kind, case, col),
        "C09" => c09::replay(kind, case, col),
        "C06" => c06::replay(kind, case, col),
        "C05" => c05::replay(kind, case, col),
        "C04" => c04::replay(kind, case, col),
        other => Err(Fail::new("replay-unsupported", format!("no replay for {other}"))),
    }
}

/// Regression tier: every file in replays/<id>/ is re-run before the generated search.
pub fn regression(ctx: &Ctx, col: &Collector) {
    let dir = format!("{}/replays/{}", crate::verif_root(), ctx.id);
    let Ok(rd) = std::fs::read_dir(&dir) else { return };
    let mut files: Vec<_> = rd.filter_map(|e| e.ok()).map(|e| e.path()).filter(|p| p.extension().map(|x| x == "json").unwrap_or(false)).collect();
    files.sort();
    for p in files {
        let Ok(text) = std::fs::read_to_string(&p) else { continue };
        let Ok(v) = serde_json::from_str::<serde_json::Value>(&text) else { continue };
        let kind = v["kind"].as_str().unwrap_or("").to_string();
        let scratch = col.scratch();
        let r = crate::runner::guarded(|| replay(ctx, &kind, &v["case"], &scratch));
        col.class("regression-replays");
        if let Err(f) = r {
            if f.signature.starts_with("replay-format") || f.signature == "replay-unsupported" || f.signature == "infra" {
                // a stored case written by an older version of the harness: not a verdict
                col.note(format!("regression replay {} skipped: {}", p.display(), f.message));
                continue;
            }
            if col.is_known(&f.signature) {
                col.known_hit(&f.signature, &f.message);
            } else {
                col.violation(crate::report::Violation {
                    signature: f.signature,
                    message: f.message,
                    case: v["case"].clone(),
                    replay: Some(p.to_string_lossy().to_string()),
                });
            }
        }
    }
}
