//! C19 — a shared instance is safe and live under concurrent use.
//!
//! Generated workloads: 2-16 threads x 4-30 operations over one shared `Covercrypt` instance
//! (distinct key objects per thread, the master key behind the caller's own lock), barrier start,
//! generated spin jitter between operations. Every result is compared with the sequential oracle,
//! freshness is checked across threads, and a watchdog distinguishes a deadlock (no progress and
//! no CPU use) from a slow run.

use super::Meta;
use crate::ccx::*;
use crate::report::{Collector, Fail, Violation};
use crate::runner::{new_runner, write_replay};
use crate::Ctx;
use proptest::prelude::*;
use proptest::strategy::ValueTree;
use serde::{Deserialize, Serialize};
use serde_json::json;
use std::collections::HashSet;
use std::sync::atomic::{AtomicBool, AtomicU64, Ordering};
use std::sync::{Arc, Barrier, Mutex};
use std::time::{Duration, Instant};

#[derive(Clone, Debug, Serialize, Deserialize, Hash, PartialEq, Eq)]
pub struct Workload {
    /// per thread: (op kind, jitter spins)
    /// kinds: 0 encaps+decaps, 1 decaps unauthorized, 2 pke round-trip, 3 header round-trip,
    ///        4 keygen + use, 5 refresh + use, 6 pke unauthorized, 7 header with aad mismatch,
    ///        8 administration on the caller's master key: rekey + prune of rights nobody encrypts for,
    ///        9 decapsulation of a degenerate parsed encapsulation (no component / no trap),
    ///        10 key generation with a copy of the master key whose structure is ahead of its secrets,
    ///        11 re-encapsulation of one fixed encapsulation
    /// Threads 2,3, 6,7, ... work with a second master key (same names, other attribute ids).
    pub threads: Vec<Vec<(u8, u16)>>,
}

fn strategy() -> impl Strategy<Value = Workload> {
    proptest::collection::vec(proptest::collection::vec((0u8..12, prop_oneof![Just(0u16), 0u16..200, 0u16..5000]), 4..30), 2..=16).prop_map(|threads| Workload { threads })
}

/// What a call returned: Ok(Some) / Ok(None) / Err / panic.
#[derive(Clone, Copy, Debug, PartialEq, Eq)]
pub enum Alone {
    Some,
    None,
    Err,
    Panic,
}

fn outcome(cc: &Covercrypt, usk: &UserSecretKey, enc: &XEnc) -> Alone {
    match std::panic::catch_unwind(std::panic::AssertUnwindSafe(|| cc.decaps(usk, enc))) {
        Ok(Ok(Some(_))) => Alone::Some,
        Ok(Ok(None)) => Alone::None,
        Ok(Err(_)) => Alone::Err,
        Err(_) => {
            let _ = crate::runner::take_panic();
            Alone::Panic
        }
    }
}

pub struct Tenant {
    pub msk: Mutex<MasterSecretKey>,
    pub mpk: MasterPublicKey,
    /// degenerate encapsulations that parse, with what decapsulating them returns on an instance
    /// nobody else uses
    pub degenerate: Vec<(XEnc, Alone)>,
    /// serialized copy of the master key with one more attribute in its structure and no
    /// `update_msk` yet, and what key generation with it returns on a private instance
    pub unsynced: (Vec<u8>, Alone),
    /// an encapsulation that stays re-encapsulable for the whole workload
    pub fixed: XEnc,
}

pub struct Shared {
    pub cc: Covercrypt,
    pub tenants: [Tenant; 2],
    pub tags: Mutex<HashSet<Vec<u8>>>,
    pub nonces: Mutex<HashSet<Vec<u8>>>,
    pub secrets: Mutex<HashSet<Vec<u8>>>,
    pub progress: AtomicU64,
    pub failed: Mutex<Option<Fail>>,
}

/// One master key; `second` declares the same names in another order, so that the attribute ids
/// (and with them every right) differ between the two tenants of the instance.
fn tenant(second: bool) -> Result<Tenant, Fail> {
    // built and probed on a private instance: nothing here may disturb the shared one
    let cc = Covercrypt::default();
    let e = |e: Error| Fail::new("fixture-failed", short_err(&e));
    let (mut msk, _) = cc.setup().map_err(e)?;
    let sec = |msk: &mut MasterSecretKey| -> Result<(), Error> {
        msk.access_structure.add_hierarchy("SEC".into())?;
        msk.access_structure.add_attribute(qa("SEC", "LOW"), hint(false), None)?;
        msk.access_structure.add_attribute(qa("SEC", "TOP"), hint(true), Some("LOW"))
    };
    if !second {
        sec(&mut msk).map_err(e)?;
    }
    msk.access_structure.add_anarchy("DPT".into()).map_err(e)?;
    for a in if second { ["FIN", "ADM", "HR"] } else { ["FIN", "HR", "ADM"] } {
        msk.access_structure.add_attribute(qa("DPT", a), hint(false), None).map_err(e)?;
    }
    if second {
        sec(&mut msk).map_err(e)?;
    }
    let mpk = cc.update_msk(&mut msk).map_err(e)?;
    // degenerate but parsable encapsulations, classic and hybridized
    let mut degenerate = vec![];
    let probe = cc.generate_user_secret_key(&mut msk, &AccessPolicy::parse("SEC::TOP && DPT::FIN").unwrap()).map_err(e)?;
    for pol in ["SEC::LOW && DPT::FIN", "SEC::TOP && DPT::FIN"] {
        let (_, enc) = cc.encaps(&mpk, &AccessPolicy::parse(pol).unwrap()).map_err(e)?;
        let w = crate::wire::WXEnc::decode(&ser(&enc)?).map_err(|e| Fail::new("codec-cannot-decode-xenc", e))?;
        let mut no_component = w.clone();
        no_component.encs.clear();
        let mut no_trap = w.clone();
        no_trap.c.clear();
        for v in [no_component, no_trap] {
            if let Ok(x) = de::<XEnc>(&v.encode()) {
                // on an instance of its own: a panicking call poisons the instance it ran on
                let alone = outcome(&Covercrypt::default(), &probe, &x);
                degenerate.push((x, alone));
            }
        }
    }
    let unsynced = {
        let mut m2: MasterSecretKey = de(&ser(&msk)?).map_err(|e| Fail::new("fixture-failed", e))?;
        m2.access_structure.add_attribute(qa("DPT", "NEW"), hint(false), None).map_err(e)?;
        let bytes = ser(&m2)?;
        // on a helper thread: a call that waits for a lock its own thread holds never returns
        let (tx, rx) = std::sync::mpsc::channel();
        std::thread::spawn(move || {
            let cc2 = Covercrypt::default();
            let alone = match std::panic::catch_unwind(std::panic::AssertUnwindSafe(|| cc2.generate_user_secret_key(&mut m2, &AccessPolicy::parse("SEC::TOP").unwrap()))) {
                Ok(Ok(_)) => Alone::Some,
                Ok(Err(_)) => Alone::Err,
                Err(_) => Alone::Panic,
            };
            let _ = tx.send(alone);
        });
        let cpu0 = proc_cpu_s();
        let alone = match rx.recv_timeout(Duration::from_secs(20)) {
            Ok(a) => a,
            Err(_) if proc_cpu_s() - cpu0 < 2.0 => {
                return Err(Fail::new("deadlock", "key generation with a master key whose structure is ahead of its secrets never returns, even on an instance nobody else uses (no CPU used for 20 s): the call blocks forever".to_string()));
            }
            Err(_) => return Err(Fail::new("infra-slow", "fixture call still computing after 20 s".to_string())),
        };
        (bytes, alone)
    };
    let (_, fixed) = cc.encaps(&mpk, &AccessPolicy::parse("SEC::LOW && DPT::FIN || DPT::HR").unwrap()).map_err(e)?;
    Ok(Tenant { msk: Mutex::new(msk), mpk, degenerate, unsynced, fixed })
}

fn shared() -> Result<Shared, Fail> {
    Ok(Shared { cc: Covercrypt::default(), tenants: [tenant(false)?, tenant(true)?], tags: Mutex::new(HashSet::new()), nonces: Mutex::new(HashSet::new()), secrets: Mutex::new(HashSet::new()), progress: AtomicU64::new(0), failed: Mutex::new(None) })
}

fn spin(n: u16) {
    let mut x = 0u64;
    for i in 0..(n as u64 * 40) {
        x = x.wrapping_mul(6364136223846793005).wrapping_add(i);
        std::hint::black_box(x);
    }
    if n % 7 == 3 {
        std::thread::yield_now();
    }
}

fn fresh(set: &Mutex<HashSet<Vec<u8>>>, v: &[u8], what: &str) -> Result<(), Fail> {
    if set.lock().unwrap().insert(v.to_vec()) {
        Ok(())
    } else {
        Err(Fail::new(format!("reused-across-threads:{what}"), format!("{what} produced twice under concurrency")))
    }
}

fn tag_of(enc: &XEnc) -> Result<Vec<u8>, Fail> {
    let b = ser(enc)?;
    Ok(b[..16].to_vec())
}

/// the part of the shared state one thread works with
struct ShView<'a> {
    msk: &'a Mutex<MasterSecretKey>,
    mpk: &'a MasterPublicKey,
    degenerate: &'a [(XEnc, Alone)],
    unsynced: &'a (Vec<u8>, Alone),
    fixed: &'a XEnc,
    secrets: &'a Mutex<HashSet<Vec<u8>>>,
    tags: &'a Mutex<HashSet<Vec<u8>>>,
    nonces: &'a Mutex<HashSet<Vec<u8>>>,
    progress: &'a AtomicU64,
}

fn thread_body(sh: &Shared, t: usize, ops: &[(u8, u16)]) -> Result<(), Fail> {
    let cc = &sh.cc;
    let sh = ShView { msk: &sh.tenants[(t / 2) % 2].msk, mpk: &sh.tenants[(t / 2) % 2].mpk, degenerate: &sh.tenants[(t / 2) % 2].degenerate, unsynced: &sh.tenants[(t / 2) % 2].unsynced, fixed: &sh.tenants[(t / 2) % 2].fixed, secrets: &sh.secrets, tags: &sh.tags, nonces: &sh.nonces, progress: &sh.progress };
    let pol_auth = AccessPolicy::parse(if t % 2 == 0 { "SEC::TOP && DPT::FIN" } else { "SEC::LOW && DPT::FIN" }).unwrap();
    let pol_enc = AccessPolicy::parse(if t % 2 == 0 { "SEC::TOP && DPT::FIN" } else { "DPT::FIN && SEC::LOW || DPT::FIN" }).unwrap();
    let pol_other = AccessPolicy::parse("DPT::HR").unwrap();
    let (mut my_key, other_key) = {
        let mut msk = sh.msk.lock().unwrap();
        let e = |e: Error| Fail::new("concurrent-call-failed:keygen", short_err(&e));
        (cc.generate_user_secret_key(&mut msk, &pol_auth).map_err(e)?, cc.generate_user_secret_key(&mut msk, &pol_other).map_err(e)?)
    };
    for (i, (kind, jitter)) in ops.iter().enumerate() {
        spin(*jitter);
        let ctx = |what: &str| format!("thread {t} op #{i} ({what})");
        match kind {
            0 => {
                let (s, enc) = cc.encaps(&sh.mpk, &pol_enc).map_err(|e| Fail::new("concurrent-call-failed:encaps", format!("{}: {}", ctx("encaps"), short_err(&e))))?;
                fresh(&sh.tags, &tag_of(&enc)?, "tag")?;
                match cc.decaps(&my_key, &enc) {
                    Ok(Some(k)) if k == s => {}
                    other => return Err(Fail::new("concurrent-result-differs:decaps", format!("{}: authorized decaps returned {:?}", ctx("decaps"), other.map(|o| o.is_some()).map_err(|e| short_err(&e))))),
                }
            }
            1 => {
                let (_s, enc) = cc.encaps(&sh.mpk, &pol_enc).map_err(|e| Fail::new("concurrent-call-failed:encaps", short_err(&e)))?;
                match cc.decaps(&other_key, &enc) {
                    Ok(None) => {}
                    other => return Err(Fail::new("concurrent-result-differs:decaps-unauthorized", format!("{}: unauthorized decaps returned {:?}", ctx("decaps"), other.map(|o| o.is_some()).map_err(|e| short_err(&e))))),
                }
            }
            2 | 6 => {
                let ptx = vec![t as u8; 1 + (i * 13) % 90];
                let ctxt = pke_encrypt(cc, &sh.mpk, &pol_enc, &ptx).map_err(|e| Fail::new("concurrent-call-failed:encrypt", format!("{}: {}", ctx("encrypt"), short_err(&e))))?;
                fresh(&sh.nonces, &ctxt.1[..12], "pke-nonce")?;
                fresh(&sh.tags, &tag_of(&ctxt.0)?, "tag")?;
                if *kind == 2 {
                    match pke_decrypt(cc, &my_key, &ctxt) {
                        Ok(Some(p)) if p == ptx => {}
                        other => return Err(Fail::new("concurrent-result-differs:decrypt", format!("{}: {:?}", ctx("decrypt"), other.map(|o| o.map(|p| p.len())).map_err(|e| short_err(&e))))),
                    }
                } else {
                    match pke_decrypt(cc, &other_key, &ctxt) {
                        Ok(None) => {}
                        other => return Err(Fail::new("concurrent-result-differs:decrypt-unauthorized", format!("{}: {:?}", ctx("decrypt"), other.map(|o| o.is_some()).map_err(|e| short_err(&e))))),
                    }
                }
            }
            3 | 7 => {
                let md = vec![0x33u8; 1 + i % 50];
                let aad = vec![t as u8; 4];
                let (secret, h) = EncryptedHeader::generate(cc, &sh.mpk, &pol_enc, Some(&md), Some(&aad)).map_err(|e| Fail::new("concurrent-call-failed:header-generate", format!("{}: {}", ctx("generate"), short_err(&e))))?;
                fresh(&sh.nonces, &h.encrypted_metadata.as_ref().unwrap()[..12], "header-nonce")?;
                if *kind == 3 {
                    match h.decrypt(cc, &my_key, Some(&aad)) {
                        Ok(Some(c)) if c.secret == secret && c.metadata.as_deref() == Some(&md[..]) => {}
                        other => return Err(Fail::new("concurrent-result-differs:header-decrypt", format!("{}: {:?}", ctx("header decrypt"), other.map(|o| o.is_some()).map_err(|e| short_err(&e))))),
                    }
                } else if h.decrypt(cc, &my_key, Some(b"other")).is_ok() {
                    return Err(Fail::new("concurrent-result-differs:header-aad", ctx("header decrypt with wrong aad succeeded")));
                }
            }
            4 => {
                let k = {
                    let mut msk = sh.msk.lock().unwrap();
                    cc.generate_user_secret_key(&mut msk, &pol_auth).map_err(|e| Fail::new("concurrent-call-failed:keygen", format!("{}: {}", ctx("keygen"), short_err(&e))))?
                };
                let (s, enc) = cc.encaps(&sh.mpk, &pol_enc).map_err(|e| Fail::new("concurrent-call-failed:encaps", short_err(&e)))?;
                match cc.decaps(&k, &enc) {
                    Ok(Some(x)) if x == s => {}
                    _ => return Err(Fail::new("concurrent-result-differs:new-key", ctx("freshly generated key cannot open"))),
                }
            }
            9 => {
                // a degenerate encapsulation that parses: the call must return what it returns
                // alone and, whatever that is, leave the instance usable for everybody
                if !sh.degenerate.is_empty() {
                    let (x, alone) = &sh.degenerate[(i + t) % sh.degenerate.len()];
                    let got = outcome(cc, &my_key, x);
                    // taking the instance's lock panics iff a panicking call poisoned it
                    let poisoned = std::panic::catch_unwind(std::panic::AssertUnwindSafe(|| drop(cc.rng()))).is_err();
                    if poisoned {
                        let _ = crate::runner::take_panic();
                    }
                    if got != *alone && !(matches!(got, Alone::None | Alone::Err) && matches!(alone, Alone::None | Alone::Err)) {
                        return Err(Fail::new("concurrent-result-differs:degenerate-decaps", format!("{}: returned {got:?}, alone {alone:?}", ctx("decaps of a degenerate encapsulation"))));
                    }
                    if poisoned {
                        return Err(Fail::new("instance-poisoned-by-one-call", format!("{}: the call returned {got:?} and left the instance's lock poisoned: every later call of every thread fails", ctx("decaps of a degenerate encapsulation"))));
                    }
                }
            }
            10 => {
                // a copy of the master key whose structure is one attribute ahead: the call must
                // return (what it returns alone), not wait for anything
                let mut m: MasterSecretKey = de(&sh.unsynced.0).map_err(|e| Fail::new("fixture-failed", e))?;
                let got = match cc.generate_user_secret_key(&mut m, &AccessPolicy::parse("SEC::TOP").unwrap()) {
                    Ok(_) => Alone::Some,
                    Err(_) => Alone::Err,
                };
                if got != sh.unsynced.1 && sh.unsynced.1 != Alone::Panic {
                    return Err(Fail::new("concurrent-result-differs:keygen-unsynced", format!("{}: returned {got:?}, alone {:?}", ctx("key generation with a master key whose structure is ahead"), sh.unsynced.1)));
                }
            }
            11 => {
                let r = {
                    let msk = sh.msk.lock().unwrap();
                    cc.recaps(&msk, sh.mpk, sh.fixed)
                };
                let (s, x) = r.map_err(|e| Fail::new("concurrent-call-failed:recaps", format!("{}: {}", ctx("recaps"), short_err(&e))))?;
                fresh(sh.tags, &tag_of(&x)?, "tag")?;
                fresh(sh.secrets, &s[..], "re-encapsulated secret")?;
                match cc.decaps(&my_key, &x) {
                    Ok(Some(k)) if k == s => {}
                    other => return Err(Fail::new("concurrent-result-differs:decaps-of-recaps", format!("{}: {:?}", ctx("decaps of a re-encapsulation"), other.map(|o| o.is_some()).map_err(|e| short_err(&e))))),
                }
            }
            8 => {
                // rotates {ADM} x SEC and the rights without DPT; no policy of this workload
                // encrypts for them, so every other oracle is unaffected
                let mut msk = sh.msk.lock().unwrap();
                let adm = AccessPolicy::parse("DPT::ADM && SEC::LOW").unwrap();
                cc.rekey(&mut msk, &adm).map_err(|e| Fail::new("concurrent-call-failed:rekey", format!("{}: {}", ctx("rekey"), short_err(&e))))?;
                cc.prune_master_secret_key(&mut msk, &adm).map_err(|e| Fail::new("concurrent-call-failed:prune", format!("{}: {}", ctx("prune"), short_err(&e))))?;
            }
            _ => {
                {
                    let mut msk = sh.msk.lock().unwrap();
                    cc.refresh_usk(&mut msk, &mut my_key, i % 2 == 0).map_err(|e| Fail::new("concurrent-call-failed:refresh", format!("{}: {}", ctx("refresh"), short_err(&e))))?;
                }
                let (s, enc) = cc.encaps(&sh.mpk, &pol_enc).map_err(|e| Fail::new("concurrent-call-failed:encaps", short_err(&e)))?;
                match cc.decaps(&my_key, &enc) {
                    Ok(Some(x)) if x == s => {}
                    _ => return Err(Fail::new("concurrent-result-differs:refreshed-key", ctx("refreshed key cannot open"))),
                }
            }
        }
        sh.progress.fetch_add(1, Ordering::Relaxed);
    }
    Ok(())
}

fn proc_cpu_s() -> f64 {
    let mut ts = libc::timespec { tv_sec: 0, tv_nsec: 0 };
    unsafe {
        libc::clock_gettime(libc::CLOCK_PROCESS_CPUTIME_ID, &mut ts);
    }
    ts.tv_sec as f64 + ts.tv_nsec as f64 * 1e-9
}

pub enum RunResult {
    Done(Result<(), Fail>),
    Deadlock,
    Slow,
}

/// Execute one workload on detached threads so that a deadlock does not take the harness with it.
pub fn execute(w: &Workload) -> RunResult {
    let sh = match crate::runner::guarded(shared) {
        Ok(s) => Arc::new(s),
        Err(f) => return RunResult::Done(Err(f)),
    };
    let n = w.threads.len();
    let barrier = Arc::new(Barrier::new(n));
    let done = Arc::new(AtomicU64::new(0));
    let stop = Arc::new(AtomicBool::new(false));
    for (t, ops) in w.threads.iter().cloned().enumerate() {
        let sh = sh.clone();
        let barrier = barrier.clone();
        let done = done.clone();
        let _stop = stop.clone();
        std::thread::spawn(move || {
            barrier.wait();
            let r = crate::runner::guarded(|| thread_body(&sh, t, &ops));
            if let Err(f) = r {
                let mut g = sh.failed.lock().unwrap_or_else(|e| e.into_inner());
                if g.is_none() {
                    *g = Some(f);
                }
            }
            done.fetch_add(1, Ordering::SeqCst);
        });
    }
    let t0 = Instant::now();
    let mut last_progress = 0u64;
    let mut last_change = Instant::now();
    let mut cpu_at_change = proc_cpu_s();
    loop {
        if done.load(Ordering::SeqCst) == n as u64 {
            let f = sh.failed.lock().unwrap_or_else(|e| e.into_inner()).take();
            return RunResult::Done(match f {
                Some(f) => Err(f),
                None => Ok(()),
            });
        }
        std::thread::sleep(Duration::from_millis(2));
        let p = sh.progress.load(Ordering::Relaxed) + done.load(Ordering::SeqCst) * 1000;
        if p != last_progress {
            last_progress = p;
            last_change = Instant::now();
            cpu_at_change = proc_cpu_s();
        } else if last_change.elapsed() > Duration::from_secs(8) {
            // no progress for 8 s: deadlock iff (almost) no CPU was used meanwhile by this process
            // (other runner activity is excluded: workloads are executed one at a time)
            let used = proc_cpu_s() - cpu_at_change;
            if used < 0.4 {
                return RunResult::Deadlock;
            }
            if t0.elapsed() > Duration::from_secs(300) {
                return RunResult::Slow;
            }
        }
    }
}

pub fn run(ctx: &Ctx, col: &Collector) -> Meta {
    // workloads are executed one at a time (each uses up to 16 threads itself), drawn from one stream
    let mut runner = new_runner(ctx.seed, 1900);
    let strat = strategy();
    let n = ctx.n(250, 6_000);
    for _ in 0..n {
        if col.stopped() {
            break;
        }
        let Ok(tree) = strat.new_tree(&mut runner) else { continue };
        let w = tree.current();
        col.eval(1);
        let nthreads = w.threads.len();
        let kinds: Vec<u8> = w.threads.iter().flat_map(|t| t.iter().map(|o| o.0)).collect();
        let sym = kinds.iter().filter(|k| matches!(**k, 2 | 3 | 6 | 7)).count();
        match execute(&w) {
            RunResult::Done(Ok(())) => {
                col.class_n("ops-executed", kinds.len() as u64);
                col.class(&format!("threads:{}", if nthreads >= 8 { "8-16" } else if nthreads >= 4 { "4-7" } else { "2-3" }));
                if nthreads >= 4 && sym >= 2 {
                    let mut multiset = [0u32; 12];
                    for k in &kinds {
                        multiset[*k as usize] += 1;
                    }
                    col.class("nontrivial-workloads");
                    if col.nontrivial(&(nthreads, multiset)) {
                        col.sample(|| json!({"threads": nthreads, "ops_per_kind": multiset, "kinds": "0 encaps+decaps, 1 unauthorized decaps, 2 pke, 3 header, 4 keygen, 5 refresh, 6 pke unauthorized, 7 header wrong aad, 8 rekey+prune, 9 degenerate decaps, 10 keygen with an unsynced master key, 11 recaps"}));
                    }
                }
            }
            RunResult::Done(Err(f)) if f.signature.starts_with("infra") => {
                col.note(format!("generator unhealthy: {} (inconclusive)", f.message));
                break;
            }
            RunResult::Done(Err(f)) => {
                let case = serde_json::to_value(&w).unwrap();
                if col.is_known(&f.signature) {
                    col.known_hit(&f.signature, &f.message);
                } else {
                    let replay = write_replay(&col.property, "workload", &f.signature, &f.message, &case);
                    col.violation(Violation { signature: f.signature, message: f.message, case, replay: Some(replay) });
                }
            }
            RunResult::Deadlock => {
                let case = serde_json::to_value(&w).unwrap();
                let msg = format!("workload with {nthreads} threads made no progress for 8 s while the process used no CPU: threads are blocked forever");
                let replay = write_replay(&col.property, "workload", "deadlock", &msg, &case);
                col.violation(Violation { signature: "deadlock".into(), message: msg, case, replay: Some(replay) });
            }
            RunResult::Slow => {
                col.note("generator unhealthy: a workload was still computing after 300 s (inconclusive)");
                break;
            }
        }
    }
    for c in ["threads:8-16", "threads:4-7", "nontrivial-workloads"] {
        if col.class_count(c) == 0 && !col.stopped() {
            col.note(format!("generator unhealthy: class {c} empty"));
        }
    }
    Meta {
        level: "exploration",
        rule: "generated workloads of 2-16 threads x 4-30 operations (encaps+decaps, unauthorized decaps, PKE encrypt/decrypt, header generate/decrypt with matching and wrong authentication data, key generation, refresh, rekey + prune on the caller's master key, decapsulation of parsed encapsulations without component / without trap, key generation with a copy of the master key whose structure is ahead of its secrets, re-encapsulation of one fixed encapsulation) with generated spin / yield jitter, all threads released by a barrier on one shared Covercrypt instance (two master keys declaring the same names with different attribute ids, each behind the caller's own mutex and used by half of the threads; distinct key objects per thread); every result must equal the sequential oracle, tags and AEAD nonces must be distinct across threads, no call may panic (poisoned lock), and the workload must finish: no progress for 8 s with no CPU use is a deadlock. Non-trivial = workload with >= 4 threads and >= 2 PKE / header operations; distinct by (thread count, multiset of operation kinds)".into(),
        exhaustive: false,
        assumptions: vec!["schedules are sampled under the real OS scheduler (contention + jitter), not owned: a defect confined to one rare interleaving can be missed".into()],
    }
}

pub fn replay(_kind: &str, case: &serde_json::Value, _col: &Collector) -> crate::report::CheckResult {
    let w: Workload = serde_json::from_value(case.clone()).map_err(|e| Fail::new("replay-format", e.to_string()))?;
    // schedules are not reproducible: repeat the workload
    for _ in 0..20 {
        match execute(&w) {
            RunResult::Done(Ok(())) => {}
            RunResult::Done(Err(f)) => return Err(f),
            RunResult::Deadlock => return Err(Fail::new("deadlock", "workload deadlocked")),
            RunResult::Slow => return Err(Fail::new("infra-slow", "workload too slow")),
        }
    }
    Ok(())
}
