//! C01 / C02 — authorized keys recover exactly the encapsulated secret; unauthorized keys never
//! recover a secret. One case produces both verdict kinds; each check reports its own half.
//!
//! Oracle: the name-level cover predicate of the property statement (`gen::policy_covers`),
//! computed from names and hierarchy ranks only — it shares nothing with the rights expansion.

use super::Meta;
use crate::ccx::*;
use crate::gen::*;
use crate::report::{CheckResult, Collector, Fail};
use crate::runner::{par_for, report_fail, run_cases};
use crate::Ctx;
use proptest::prelude::*;
use serde::{Deserialize, Serialize};
use serde_json::json;

#[derive(Clone, Debug, Serialize, Deserialize, Hash, PartialEq, Eq)]
pub enum EncRecipe {
    Free(PolicySpec),
    /// derived from clause `clause` of user `user`: variant 0 same, 1 lower attribute in a
    /// hierarchy, 2 extra attribute in an unmentioned dimension, 3 dropped dimension,
    /// 4 next higher attribute / sibling (one step outside), 5 another attribute in a mentioned dimension
    Derived { user: u16, clause: u16, variant: u8, pos: u16, extra: u16 },
}

/// Edits applied to the structure after it was built and before any key is generated: the
/// property quantifies over all access structures, including those reached through edits and
/// through a serialization round-trip of the master key.
#[derive(Clone, Debug, Serialize, Deserialize, Hash, PartialEq, Eq)]
pub enum Detour {
    Del { dim: u16, attr: u16 },
    Add { dim: u16, after: Option<u16>, hybrid: bool },
    Rename { dim: u16, attr: u16 },
    RoundTrip,
    Update,
}

#[derive(Clone, Debug, Serialize, Deserialize, Hash, PartialEq, Eq)]
pub struct CoverCase {
    pub spec: StructSpec,
    #[serde(default)]
    pub detours: Vec<Detour>,
    /// number of extra tracers appended to the master key through its serialized form before
    /// anything else happens (the API only creates tracing level 1; higher levels are reachable by
    /// deserialization)
    #[serde(default)]
    pub extra_tracers: u8,
    pub users: Vec<PolicySpec>,
    pub encs: Vec<EncRecipe>,
}

fn strategy(thorough: bool) -> impl Strategy<Value = CoverCase> {
    let (md, ma, mr) = if thorough { (4, 4, 200) } else { (3, 4, 80) };
    let enc = prop_oneof![
        2 => policy_spec(3, 3, 2).prop_map(EncRecipe::Free),
        5 => (any::<u16>(), any::<u16>(), 0u8..6, any::<u16>(), any::<u16>()).prop_map(|(user, clause, variant, pos, extra)| EncRecipe::Derived { user, clause, variant, pos, extra }),
    ];
    let detour = prop_oneof![
        3 => (any::<u16>(), any::<u16>()).prop_map(|(dim, attr)| Detour::Del { dim, attr }),
        3 => (any::<u16>(), proptest::option::of(any::<u16>()), any::<bool>()).prop_map(|(dim, after, hybrid)| Detour::Add { dim, after, hybrid }),
        2 => (any::<u16>(), any::<u16>()).prop_map(|(dim, attr)| Detour::Rename { dim, attr }),
        2 => Just(Detour::RoundTrip),
        2 => Just(Detour::Update),
    ];
    (
        struct_spec(md, ma, mr, true),
        prop_oneof![1 => Just(vec![]), 1 => proptest::collection::vec(detour, 1..=5)],
        proptest::collection::vec(policy_spec(3, 3, 2), 2..=5),
        proptest::collection::vec(enc, 2..=6),
    )
        .prop_flat_map(|(spec, detours, users, encs)| {
            prop_oneof![10 => Just(0u8), 2 => Just(1u8), 2 => Just(2u8), 1 => Just(4u8)].prop_map(move |extra_tracers| CoverCase { spec: spec.clone(), detours: detours.clone(), extra_tracers, users: users.clone(), encs: encs.clone() })
        })
}

fn derive(spec: &StructSpec, user_dnf: &[Conj], clause: u16, variant: u8, pos: u16, extra: u16) -> Conj {
    if user_dnf.is_empty() {
        return vec![];
    }
    let mut c: Conj = user_dnf[pick(clause, user_dnf.len())].clone();
    match variant {
        1 | 4 | 5 if !c.is_empty() => {
            let i = pick(pos, c.len());
            let (d, a) = c[i].clone();
            if let Some(dim) = spec.dim(&d) {
                let r = dim.attrs.iter().position(|x| x.0 == a).unwrap_or(0);
                let n = dim.attrs.len();
                let new = match variant {
                    1 => {
                        if r > 0 {
                            pick(extra, r)
                        } else {
                            r
                        }
                    }
                    4 => (r + 1) % n,
                    _ => pick(extra, n),
                };
                c[i] = (d, dim.attrs[new].0.clone());
            }
        }
        2 => {
            let free: Vec<&DimSpec> = spec.dims.iter().filter(|d| !c.iter().any(|(cd, _)| cd == &d.name)).collect();
            if !free.is_empty() {
                let d = free[pick(pos, free.len())];
                c.push((d.name.clone(), d.attrs[pick(extra, d.attrs.len())].0.clone()));
            }
        }
        3 if c.len() > 1 => {
            c.remove(pick(pos, c.len()));
        }
        _ => {}
    }
    c
}

struct Pair<'a> {
    spec: &'a StructSpec,
    user: &'a [Conj],
    enc: &'a [Conj],
}

fn c01_reasons(p: &Pair) -> Vec<&'static str> {
    let mut out = vec![];
    for c in p.enc {
        for u in p.user {
            if !clause_covers(p.spec, u, c) {
                continue;
            }
            for (d, a) in c {
                match u.iter().find(|(ud, _)| ud == d) {
                    None => out.push("unmentioned-dimension"),
                    Some((_, ua)) if ua != a => out.push("lower-hierarchical"),
                    _ => {}
                }
                if p.spec.is_hybrid(d, a) {
                    out.push("hybridized-target");
                }
            }
            if u.len() < p.spec.dims.len() && u.iter().any(|(ud, _)| !c.iter().any(|(cd, _)| cd == ud)) {
                out.push("enc-omits-user-dimension");
            }
        }
    }
    if p.user.len() > 1 {
        out.push("multi-clause-user");
    }
    if p.enc.len() > 1 {
        out.push("multi-target-enc");
    }
    if p.spec.dims.len() >= 3 {
        out.push("3+dimensions");
    }
    out.sort();
    out.dedup();
    out
}

/// distance-one: some user clause fails the cover condition on exactly one attribute of a conjunction
fn c02_reasons(p: &Pair) -> Vec<&'static str> {
    let mut out = vec![];
    for c in p.enc {
        for u in p.user {
            let failing: Vec<&(String, String)> = c
                .iter()
                .filter(|(d, a)| match u.iter().find(|(ud, _)| ud == d) {
                    None => false,
                    Some((_, ua)) => !(ua == a || (p.spec.hier(d) == Some(true) && p.spec.rank(d, a) <= p.spec.rank(d, ua))),
                })
                .collect();
            if failing.len() == 1 {
                let (d, a) = failing[0];
                if p.spec.hier(d) == Some(true) {
                    let ua = &u.iter().find(|(ud, _)| ud == d).unwrap().1;
                    if p.spec.rank(d, a) == p.spec.rank(d, ua).map(|r| r + 1) {
                        out.push("next-higher-level");
                    } else {
                        out.push("higher-level");
                    }
                } else {
                    out.push("sibling-attribute");
                }
                if c.len() > 1 {
                    out.push("all-but-one-dimension-shared");
                }
            }
        }
    }
    out.sort();
    out.dedup();
    out
}

pub fn check_case(focus: &str, case: &CoverCase, col: &Collector) -> CheckResult {
    let cc = Covercrypt::default();
    let (mut msk, _) = cc.setup().map_err(|e| Fail::new("setup-failed", short_err(&e)))?;
    if case.extra_tracers > 0 {
        let b = ser(&msk)?;
        let mut wm = crate::wire::WMsk::decode(&b).map_err(|e| Fail::new("codec-cannot-decode-msk", e))?;
        for k in 0..case.extra_tracers as usize {
            let t = wm.tracers[k % wm.tracers.len()].clone();
            wm.tracers.push(t);
        }
        msk = de(&wm.encode()).map_err(|e| Fail::new("higher-tracing-level-msk-rejected", e))?;
        col.class(&format!("tracing-level:{}", 1 + case.extra_tracers));
    }
    case.spec.build(&mut msk.access_structure).map_err(|e| Fail::new("structure-build-failed", format!("{}: {}", case.spec.shape(), short_err(&e))))?;
    let mut mpk = cc.update_msk(&mut msk).map_err(|e| Fail::new("update-failed", short_err(&e)))?;
    // detours: the name-level structure is edited in parallel
    let mut spec = case.spec.clone();
    let mut fresh = 0;
    for d in &case.detours {
        match d {
            Detour::Del { dim, attr } => {
                let di = pick(*dim, spec.dims.len());
                if spec.dims[di].attrs.len() < 2 {
                    continue;
                }
                let ai = pick(*attr, spec.dims[di].attrs.len());
                let (dn, an) = (spec.dims[di].name.clone(), spec.dims[di].attrs[ai].0.clone());
                msk.access_structure.del_attribute(&qa(&dn, &an)).map_err(|e| Fail::new("detour-failed", short_err(&e)))?;
                spec.dims[di].attrs.remove(ai);
                col.class("detour:delete");
            }
            Detour::Add { dim, after, hybrid } => {
                let di = pick(*dim, spec.dims.len());
                if spec.n_rights() / (spec.dims[di].attrs.len() + 1) * (spec.dims[di].attrs.len() + 2) > 260 {
                    continue;
                }
                fresh += 1;
                let name = format!("new{fresh}");
                let dn = spec.dims[di].name.clone();
                let hier = spec.dims[di].hier;
                let after_ix = after.map(|a| pick(a, spec.dims[di].attrs.len()));
                let after_name = after_ix.map(|i| spec.dims[di].attrs[i].0.clone());
                msk.access_structure
                    .add_attribute(qa(&dn, &name), hint(*hybrid), after_name.as_deref())
                    .map_err(|e| Fail::new("detour-failed", short_err(&e)))?;
                if hier {
                    match after_ix {
                        None => spec.dims[di].attrs.insert(0, (name, *hybrid)),
                        Some(i) => spec.dims[di].attrs.insert(i + 1, (name, *hybrid)),
                    }
                } else {
                    spec.dims[di].attrs.push((name, *hybrid));
                }
                col.class("detour:add");
            }
            Detour::Rename { dim, attr } => {
                let di = pick(*dim, spec.dims.len());
                let ai = pick(*attr, spec.dims[di].attrs.len());
                let (dn, an) = (spec.dims[di].name.clone(), spec.dims[di].attrs[ai].0.clone());
                fresh += 1;
                let nn = format!("{an}~{fresh}");
                msk.access_structure.rename_attribute(&qa(&dn, &an), nn.clone()).map_err(|e| Fail::new("detour-failed", short_err(&e)))?;
                spec.dims[di].attrs[ai].0 = nn;
                col.class("detour:rename");
            }
            Detour::RoundTrip => {
                let b = ser(&msk)?;
                msk = de(&b).map_err(|e| Fail::new("roundtrip-deserialize-failed:msk", e))?;
                col.class("detour:msk-roundtrip");
            }
            Detour::Update => {
                mpk = cc.update_msk(&mut msk).map_err(|e| Fail::new("update-failed", short_err(&e)))?;
                col.class("detour:update");
            }
        }
    }
    if !case.detours.is_empty() {
        mpk = cc.update_msk(&mut msk).map_err(|e| Fail::new("update-failed", short_err(&e)))?;
        col.class("cases-with-detours");
    }
    let spec = &spec;
    let view = view_of(spec);
    // a second authority served by the same instance: the same names, but every attribute id
    // shifted (one more dimension declared first). In two cases out of three each key generation
    // and each encapsulation is preceded by the same call for that authority: nothing the instance
    // remembers from it may leak into the call that is judged.
    let shadow = if spec.dims.len() % 3 != 0 || case.users.len() % 2 == 0 {
        let mk = || -> Result<(MasterSecretKey, MasterPublicKey), Error> {
            let (mut m2, _) = cc.setup()?;
            m2.access_structure.add_anarchy("ZZ-other-authority".into())?;
            m2.access_structure.add_attribute(qa("ZZ-other-authority", "z"), hint(false), None)?;
            spec.build(&mut m2.access_structure)?;
            let p2 = cc.update_msk(&mut m2)?;
            Ok((m2, p2))
        };
        let s = mk().map_err(|e| Fail::new("second-authority-failed", short_err(&e)))?;
        col.class("cases-with-a-second-authority-on-the-instance");
        Some(s)
    } else {
        None
    };
    let (mut shadow_msk, shadow_mpk) = match shadow {
        Some((a, b)) => (Some(a), Some(b)),
        None => (None, None),
    };
    let mut users: Vec<(RPolicy, Vec<Conj>, UserSecretKey)> = vec![];
    for ps in &case.users {
        let rp = ps.resolve(&view);
        let dnf = rp.dnf();
        let (pol, via_parse) = rp.to_policy().map_err(|e| Fail::new("generated-policy-rejected-by-parser", e))?;
        if via_parse {
            col.class("policy:via-parse");
        }
        if rp.has_stars() {
            col.class("policy:user-with-star-operand");
        }
        if let Some(m2) = shadow_msk.as_mut() {
            let _ = cc.generate_user_secret_key(m2, &pol);
        }
        let usk = cc
            .generate_user_secret_key(&mut msk, &pol)
            .map_err(|e| Fail::new("keygen-failed-on-well-formed-policy", format!("{} on {}: {}", rp.describe(), spec.shape(), short_err(&e))))?;
        users.push((rp, dnf, usk));
    }
    let mut encs: Vec<(RPolicy, Vec<Conj>, Vec<u8>, XEnc)> = vec![];
    for er in &case.encs {
        let rp = match er {
            EncRecipe::Free(ps) => ps.resolve(&view),
            EncRecipe::Derived { user, clause, variant, pos, extra } => {
                let (_, udnf, _) = &users[pick(*user, users.len())];
                let c = derive(spec, udnf, *clause, *variant, *pos, *extra);
                col.class(&format!("enc-derived:variant{variant}"));
                RPolicy::from_dnf(&[c], (*extra as u64) << 8 | *variant as u64)
            }
        };
        let dnf = rp.dnf();
        if rp.has_stars() {
            col.class("policy:enc-with-star-operand");
        }
        let (pol, _) = rp.to_policy().map_err(|e| Fail::new("generated-policy-rejected-by-parser", e))?;
        if let Some(p2) = shadow_mpk.as_ref() {
            let _ = cc.encaps(p2, &pol);
        }
        let (s, enc) = cc
            .encaps(&mpk, &pol)
            .map_err(|e| Fail::new("encaps-failed-on-well-formed-policy", format!("{} on {}: {}", rp.describe(), spec.shape(), short_err(&e))))?;
        encs.push((rp, dnf, s.to_vec(), enc));
    }
    for (urp, udnf, usk) in &users {
        for (erp, ednf, secret, enc) in &encs {
            let covered = policy_covers(spec, udnf, ednf);
            col.eval(1);
            let r = cc.decaps(usk, enc);
            let ctx = || format!("structure {} user '{}' enc '{}'", spec.shape(), urp.describe(), erp.describe());
            let pair = Pair { spec: spec, user: udnf, enc: ednf };
            let fp = (spec.shape(), udnf, ednf);
            match r {
                Err(e) => return Err(Fail::new("decaps-error-on-valid-objects", format!("{}: decaps returned Err({})", ctx(), short_err(&e)))),
                Ok(Some(s)) => {
                    if !covered {
                        let leak = s.to_vec() == *secret;
                        if focus == "C02" {
                            return Err(Fail::new(
                                "unauthorized-key-opens",
                                format!("{}: policy does not cover any conjunction, yet decaps returned {} secret", ctx(), if leak { "the encapsulated" } else { "a different" }),
                            ));
                        }
                        col.off_property("unauthorized-key-opens [C02]");
                    } else if s.to_vec() != *secret {
                        return Err(Fail::new("wrong-secret", format!("{}: decaps returned a secret different from the encapsulated one", ctx())));
                    } else {
                        col.class("pairs:authorized-opened");
                        if focus == "C01" {
                            let reasons = c01_reasons(&pair);
                            for r in &reasons {
                                col.class(&format!("c01:{r}"));
                            }
                            if !reasons.is_empty() && col.nontrivial(&fp) {
                                col.sample(|| json!({"structure": spec.shape(), "user_policy": urp.describe(), "enc_policy": erp.describe(), "verdict": "opened to the encapsulated secret", "why_nontrivial": reasons}));
                            }
                        }
                    }
                }
                Ok(None) => {
                    if covered {
                        if focus == "C01" {
                            return Err(Fail::new("authorized-key-cannot-open", format!("{}: policy covers a conjunction, decaps returned None", ctx())));
                        }
                        col.off_property("authorized-key-cannot-open [C01]");
                    } else {
                        col.class("pairs:unauthorized-refused");
                        if focus == "C02" {
                            let reasons = c02_reasons(&pair);
                            for r in &reasons {
                                col.class(&format!("c02:{r}"));
                            }
                            if !reasons.is_empty() && col.nontrivial(&fp) {
                                col.sample(|| json!({"structure": spec.shape(), "user_policy": urp.describe(), "enc_policy": erp.describe(), "verdict": "None", "why_nontrivial": reasons}));
                            }
                        }
                    }
                }
            }
        }
    }
    Ok(())
}


// ------------------------------------------------------------------ oracle self-check

/// The two oracles of the harness — the name-level cover predicate used here and the
/// rights/revision-level reference model used by the history checks — are written independently.
/// Before anything is concluded they are compared with each other on generated structures and
/// policies (no code under test involved). A disagreement is a harness defect (exit 2), never a verdict.
fn oracle_self_check(ctx: &Ctx, col: &Collector) -> bool {
    use crate::model::{opens, MEnc, MMsk, MStructure};
    use proptest::strategy::ValueTree;
    let mut runner = crate::runner::new_runner(ctx.seed, 4242);
    let strat = (struct_spec(4, 4, 200, true), proptest::collection::vec(policy_spec(3, 3, 2), 1..4), proptest::collection::vec(policy_spec(3, 3, 2), 1..4));
    for _ in 0..400 {
        let Ok(tree) = strat.new_tree(&mut runner) else { continue };
        let (spec, users, encs) = tree.current();
        let mut st = MStructure::default();
        let mut uid = 0;
        for d in &spec.dims {
            st.add_dim(&d.name, d.hier);
        }
        for (d, a, h, after) in spec.insertion_plan() {
            st.add_attr(&d, &a, h, after.as_deref(), uid);
            uid += 1;
        }
        // the documented insertion rule must reproduce the rank order of the spec
        for d in &spec.dims {
            let got: Vec<&str> = st.dim(&d.name).unwrap().attrs.iter().map(|a| a.name.as_str()).collect();
            let want: Vec<&str> = d.attrs.iter().map(|a| a.0.as_str()).collect();
            if d.hier && got != want {
                col.note(format!("generator unhealthy: oracle self-check failed: insertion plan gives {got:?}, spec says {want:?}"));
                return false;
            }
        }
        let mut msk = MMsk { structure: st, ..Default::default() };
        let mut rev = 0;
        msk.update(&mut rev);
        let mpk = msk.mpk();
        let view = view_of(&spec);
        for (i, u) in users.iter().enumerate() {
            let udnf = u.resolve(&view).dnf();
            let Ok(k) = msk.keygen(&udnf, i, String::new()) else { continue };
            for e in &encs {
                let ednf = e.resolve(&view).dnf();
                let Ok((targets, hybrid)) = mpk.encaps(&ednf) else { continue };
                let m = MEnc { targets, hybrid, policy: String::new(), mpk_index: 0 };
                let a = opens(&k, &m);
                let b = policy_covers(&spec, &udnf, &ednf);
                col.class("oracle-self-check:pairs");
                if a != b {
                    col.note(format!("generator unhealthy: oracle self-check failed: rights-level model says {a}, cover predicate says {b} for user {udnf:?} enc {ednf:?} on {}", spec.shape()));
                    return false;
                }
            }
        }
    }
    true
}

// ------------------------------------------------------------------ exhaustive tables

fn fixed_structures() -> Vec<StructSpec> {
    let a = |n: &str, h: bool| (n.to_string(), h);
    vec![
        StructSpec {
            dims: vec![
                DimSpec { name: "SEC".into(), hier: true, attrs: vec![a("LOW", false), a("MID", false), a("TOP", true)], order_seed: 7 },
                DimSpec { name: "DPT".into(), hier: false, attrs: vec![a("FIN", false), a("HR", false)], order_seed: 0 },
            ],
        },
        StructSpec {
            dims: vec![
                DimSpec { name: "SEC".into(), hier: true, attrs: vec![a("LOW", false), a("TOP", true)], order_seed: 3 },
                DimSpec { name: "Région".into(), hier: true, attrs: vec![a("é", false), a("日本", false)], order_seed: 0 },
                DimSpec { name: "DPT".into(), hier: false, attrs: vec![a("FIN", true), a("Low Secret", false)], order_seed: 1 },
            ],
        },
        StructSpec { dims: vec![DimSpec { name: "CTR".into(), hier: false, attrs: vec![a("FR", false), a("DE", true), a("x9", false)], order_seed: 0 }] },
    ]
}

fn all_conjs(spec: &StructSpec) -> Vec<Conj> {
    let mut acc: Vec<Conj> = vec![vec![]];
    for d in &spec.dims {
        let mut next = acc.clone();
        for a in &d.attrs {
            for c in &acc {
                let mut c2 = c.clone();
                c2.push((d.name.clone(), a.0.clone()));
                next.push(c2);
            }
        }
        acc = next;
    }
    acc
}

fn exhaustive(ctx: &Ctx, focus: &str, col: &Collector) {
    for spec in fixed_structures() {
        let cc = Covercrypt::default();
        let Ok((mut msk, _)) = cc.setup() else { continue };
        if spec.build(&mut msk.access_structure).is_err() {
            report_fail(col, "cover", Fail::new("structure-build-failed", spec.shape()), json!({"spec": spec}));
            return;
        }
        let Ok(mpk) = cc.update_msk(&mut msk) else {
            report_fail(col, "cover", Fail::new("update-failed", spec.shape()), json!({"spec": spec}));
            return;
        };
        let conjs = all_conjs(&spec);
        // encapsulations: every single conjunction
        let mut encs = vec![];
        for c in &conjs {
            let rp = RPolicy::from_dnf(&[c.clone()], 2);
            match cc.encaps(&mpk, &rp.to_ast()) {
                Ok((s, e)) => encs.push((c.clone(), s.to_vec(), e)),
                Err(e) => {
                    report_fail(col, "cover", Fail::new("encaps-failed-on-well-formed-policy", format!("{}: {}", rp.describe(), short_err(&e))), json!({"spec": spec, "enc": c}));
                    return;
                }
            }
        }
        // user DNFs with <= 2 clauses (non-broadcast clauses; '*' alone separately)
        let mut user_dnfs: Vec<Vec<Conj>> = vec![vec![vec![]]];
        let nb: Vec<&Conj> = conjs.iter().filter(|c| !c.is_empty()).collect();
        for i in 0..nb.len() {
            user_dnfs.push(vec![nb[i].clone()]);
            for j in (i + 1)..nb.len() {
                user_dnfs.push(vec![nb[i].clone(), nb[j].clone()]);
            }
        }
        let mut keys = vec![];
        for (k, dnf) in user_dnfs.iter().enumerate() {
            let rp = RPolicy::from_dnf(dnf, k as u64);
            let pol = if k % 2 == 1 && rp.parse_safe() {
                match AccessPolicy::parse(&rp.to_string_with_shape()) {
                    Ok(p) => p,
                    Err(e) => {
                        report_fail(col, "cover", Fail::new("generated-policy-rejected-by-parser", e.to_string()), json!({"policy": rp.to_string_with_shape()}));
                        return;
                    }
                }
            } else {
                rp.to_ast()
            };
            match cc.generate_user_secret_key(&mut msk, &pol) {
                Ok(u) => keys.push(u),
                Err(e) => {
                    report_fail(col, "cover", Fail::new("keygen-failed-on-well-formed-policy", format!("{}: {}", rp.describe(), short_err(&e))), json!({"spec": spec, "user": dnf}));
                    return;
                }
            }
        }
        col.class_n("exhaustive:user-policies", user_dnfs.len() as u64);
        col.class_n("exhaustive:enc-policies", encs.len() as u64);
        let n = (user_dnfs.len() * encs.len()) as u64;
        par_for(ctx.threads, n, col, |i| {
            let ui = (i as usize) / encs.len();
            let ei = (i as usize) % encs.len();
            let (c, secret, enc) = &encs[ei];
            let ednf = vec![c.clone()];
            let covered = policy_covers(&spec, &user_dnfs[ui], &ednf);
            col.eval(1);
            let r = crate::runner::guarded(|| {
                let r = with_cc(|tcc| tcc.decaps(&keys[ui], enc));
                let ctxs = format!("structure {} user {:?} enc {:?}", spec.shape(), user_dnfs[ui], c);
                match r {
                    Err(e) => Err(Fail::new("decaps-error-on-valid-objects", format!("{ctxs}: {}", short_err(&e)))),
                    Ok(Some(s)) => {
                        if !covered {
                            if focus == "C02" {
                                return Err(Fail::new("unauthorized-key-opens", format!("{ctxs}: not covered, decaps returned a secret")));
                            }
                            col.off_property("unauthorized-key-opens [C02]");
                            Ok(())
                        } else if s.to_vec() != *secret {
                            Err(Fail::new("wrong-secret", format!("{ctxs}: different secret")))
                        } else {
                            col.class("pairs:authorized-opened");
                            Ok(())
                        }
                    }
                    Ok(None) => {
                        if covered {
                            if focus == "C01" {
                                return Err(Fail::new("authorized-key-cannot-open", format!("{ctxs}: covered, decaps returned None")));
                            }
                            col.off_property("authorized-key-cannot-open [C01]");
                        } else {
                            col.class("pairs:unauthorized-refused");
                        }
                        Ok(())
                    }
                }
            });
            match r {
                Ok(()) => {
                    let pair = Pair { spec: &spec, user: &user_dnfs[ui], enc: &ednf };
                    let nt = if focus == "C01" { covered && !c01_reasons(&pair).is_empty() } else { !covered && !c02_reasons(&pair).is_empty() };
                    if nt {
                        col.nontrivial(&(spec.shape(), &user_dnfs[ui], &ednf));
                    }
                }
                Err(f) => report_fail(col, "cover-table", f, json!({"spec": spec, "user": user_dnfs[ui], "enc": c})),
            }
        });
        col.class_n("exhaustive:pairs", n);
    }
}

pub fn run(ctx: &Ctx, col: &Collector) -> Meta {
    let focus = ctx.id.clone();
    if !oracle_self_check(ctx, col) {
        return Meta { level: "exploration", rule: "oracle self-check failed".into(), exhaustive: false, assumptions: vec![] };
    }
    exhaustive(ctx, &focus, col);
    // one fixed large structure (630 rights, names longer than 127 bytes)
    {
        let ps = |g: Vec<Vec<(u16, Vec<u16>)>>, shape: u64| PolicySpec { broadcast: false, groups: g, shape, stars: 0 };
        let big = CoverCase {
            spec: big_spec(),
            detours: vec![Detour::Del { dim: 0, attr: 30000 }, Detour::RoundTrip, Detour::Add { dim: 0, after: Some(10000), hybrid: true }],
            extra_tracers: 2,
            users: vec![
                ps(vec![vec![(0, vec![30000])]], 2),
                ps(vec![vec![(0, vec![12000]), (20000, vec![0]), (60000, vec![40000])]], 3),
                ps(vec![vec![(40000, vec![65000])], vec![(20000, vec![30000, 50000])]], 4),
            ],
            encs: vec![
                EncRecipe::Derived { user: 0, clause: 0, variant: 1, pos: 0, extra: 20000 },
                EncRecipe::Derived { user: 30000, clause: 0, variant: 0, pos: 0, extra: 0 },
                EncRecipe::Derived { user: 30000, clause: 0, variant: 4, pos: 0, extra: 0 },
                EncRecipe::Derived { user: 60000, clause: 0, variant: 2, pos: 0, extra: 9000 },
                EncRecipe::Free(ps(vec![vec![(0, vec![0, 20000, 60000]), (20000, vec![0, 40000])]], 6)),
            ],
        };
        col.eval(1);
        if let Err(f) = crate::runner::guarded(|| check_case(&focus, &big, col)) {
            report_fail(col, "cover", f, serde_json::to_value(&big).unwrap());
        }
        col.class("large-structure-case");
    }
    let thorough = ctx.thorough;
    run_cases(&ctx.run_cfg(ctx.n(1200, 12_000), 1), "cover", || strategy(thorough), col, |c, col| check_case(&focus, c, col));
    let need: &[&str] = if focus == "C01" {
        &["c01:lower-hierarchical", "c01:unmentioned-dimension", "c01:multi-clause-user", "c01:multi-target-enc", "c01:hybridized-target", "c01:3+dimensions"]
    } else {
        &["c02:next-higher-level", "c02:sibling-attribute", "c02:all-but-one-dimension-shared"]
    };
    for c in need.iter().chain(["policy:user-with-star-operand", "policy:enc-with-star-operand", "cases-with-a-second-authority-on-the-instance"].iter()) {
        if col.class_count(c) == 0 && !col.stopped() {
            col.note(format!("generator unhealthy: class {c} empty"));
        }
    }
    let rule = if focus == "C01" {
        "random structures (1-4 dimensions, hierarchies built by out-of-order `after` insertions, arbitrary hints, non-ASCII / inner-space names) with 2-5 user policies and 2-6 encryption policies (free, or derived from a user clause: same / lower attribute / extra unmentioned dimension / dropped dimension / one step outside), policies passed as ASTs, built with the `&` / `|` operators, or through the parser with random spacing and parentheses; in two cases out of three the instance also serves a second authority with the same names and shifted attribute ids, and every key generation / encapsulation is preceded by the same call for that authority; one policy in five carries a `*` operand (`X && *`, `(D::a || *) && X`, `X || *`; built with the operators, `*` read as true); half of the structures then go through 1-5 edits (delete / add with `after` / rename / master-key round-trip / update) before any key exists, the name-level structure being edited in parallel; about 1 case in 3 uses a master key with tracing level 2, 3 or 5 (tracers appended through the serialized form); plus exhaustive tables on three fixed structures (all user DNFs with <= 2 clauses x all single-conjunction encryption policies). Oracle: name-level cover predicate. Non-trivial = authorized pair whose authorization uses a lower hierarchical attribute, an unmentioned dimension, a multi-clause user policy, a multi-target encapsulation, a hybridized target or >= 3 dimensions; distinct by (structure shape, user DNF, encryption DNF)"
    } else {
        "same cases as C01 (one run yields both verdict kinds; this check reports the unauthorized half). Oracle: name-level cover predicate says no conjunction is covered => decaps must return None (Some(x) for any x is a violation). Non-trivial = unauthorized pair at distance one from authorization: exactly one attribute of a conjunction fails against some user clause (next higher level in a hierarchy, sibling in an anarchy), possibly sharing all other dimensions; distinct by (structure shape, user DNF, encryption DNF)"
    };
    Meta {
        level: "exploration",
        rule: rule.into(),
        exhaustive: false,
        assumptions: vec![
            "checks the decision logic (what decaps returns); computational hardness is assumed".into(),
            "well-formed policies: at most one attribute per dimension in a DNF clause".into(),
        ],
    }
}

pub fn replay(ctx: &Ctx, kind: &str, case: &serde_json::Value, col: &Collector) -> CheckResult {
    match kind {
        "cover" => {
            let c: CoverCase = serde_json::from_value(case.clone()).map_err(|e| Fail::new("replay-format", e.to_string()))?;
            check_case(&ctx.id, &c, col)
        }
        "cover-table" => {
            // one (structure, user DNF, enc conjunction) triple
            let spec: StructSpec = serde_json::from_value(case["spec"].clone()).map_err(|e| Fail::new("replay-format", e.to_string()))?;
            let user: Vec<Conj> = serde_json::from_value(case["user"].clone()).map_err(|e| Fail::new("replay-format", e.to_string()))?;
            let enc: Conj = serde_json::from_value(case["enc"].clone()).map_err(|e| Fail::new("replay-format", e.to_string()))?;
            let cc = Covercrypt::default();
            let (mut msk, _) = cc.setup().map_err(|e| Fail::new("setup-failed", short_err(&e)))?;
            spec.build(&mut msk.access_structure).map_err(|e| Fail::new("structure-build-failed", short_err(&e)))?;
            let mpk = cc.update_msk(&mut msk).map_err(|e| Fail::new("update-failed", short_err(&e)))?;
            let usk = cc.generate_user_secret_key(&mut msk, &RPolicy::from_dnf(&user, 0).to_ast()).map_err(|e| Fail::new("keygen-failed-on-well-formed-policy", short_err(&e)))?;
            let (s, x) = cc.encaps(&mpk, &RPolicy::from_dnf(&[enc.clone()], 0).to_ast()).map_err(|e| Fail::new("encaps-failed-on-well-formed-policy", short_err(&e)))?;
            let covered = policy_covers(&spec, &user, &[enc.clone()]);
            match cc.decaps(&usk, &x) {
                Err(e) => Err(Fail::new("decaps-error-on-valid-objects", short_err(&e))),
                Ok(Some(k)) if !covered && ctx.id == "C02" => Err(Fail::new("unauthorized-key-opens", format!("{}", if k.to_vec() == s.to_vec() { "leak" } else { "other" }))),
                Ok(Some(k)) if covered && k.to_vec() != s.to_vec() => Err(Fail::new("wrong-secret", "different secret")),
                Ok(None) if covered && ctx.id == "C01" => Err(Fail::new("authorized-key-cannot-open", "covered, None")),
                _ => Ok(()),
            }
        }
        k => Err(Fail::new("replay-format", format!("unknown kind {k}"))),
    }
}
