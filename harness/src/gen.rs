//! Generators (proptest strategies) and the plain-data case types they produce.
//!
//! All cases are plain serialisable data. Symbolic selectors (`u16`) are mapped monotonically onto
//! the live lists at execution time (`i * len >> 16`) so that shrinking a selector moves toward
//! the first element and deleting an earlier operation keeps later ones meaningful.

#![allow(dead_code)]

use crate::ccx::*;
use proptest::prelude::*;
use serde::{Deserialize, Serialize};

pub fn pick(sel: u16, len: usize) -> usize {
    debug_assert!(len > 0);
    ((sel as usize) * len) >> 16
}

/// Tiny deterministic bit source derived from case data (`shape`), used only for rendering
/// choices (association, redundant parentheses, spacing). Pure function of the case.
#[derive(Clone)]
pub struct Bits(u64);
impl Bits {
    pub fn new(seed: u64) -> Self {
        Self(seed ^ 0x9e37_79b9_7f4a_7c15)
    }
    pub fn next(&mut self) -> u64 {
        // splitmix64
        self.0 = self.0.wrapping_add(0x9e37_79b9_7f4a_7c15);
        let mut z = self.0;
        z = (z ^ (z >> 30)).wrapping_mul(0xbf58_476d_1ce4_e5b9);
        z = (z ^ (z >> 27)).wrapping_mul(0x94d0_49bb_1331_11eb);
        z ^ (z >> 31)
    }
    pub fn below(&mut self, n: u64) -> u64 {
        self.next() % n.max(1)
    }
    pub fn coin(&mut self) -> bool {
        self.next() & 1 == 1
    }
}

// ------------------------------------------------------------------ names

/// the last dimension name and the last attribute name are longer than 127 bytes (their length
/// prefix needs two LEB128 bytes)
pub const DIM_NAMES: &[&str] = &[
    "SEC",
    "DPT",
    "CTR",
    "Dim3",
    "Région",
    "Org Unit",
    "D6",
    "A-dimension-whose-name-is-longer-than-one-hundred-and-twenty-seven-bytes-so-that-its-length-prefix-takes-two-bytes-on-the-wire-0123456789-0123456789",
];
pub const ATTR_NAMES: &[&str] = &[
    "LOW", "MID", "TOP", "FIN", "HR", "MKG", "Low Secret", "é", "日本", "x9", "R&D?", "a10", "a11", "a12", "a13",
    "an-attribute-whose-name-is-longer-than-one-hundred-and-twenty-seven-bytes-so-that-its-length-prefix-takes-two-bytes-on-the-wire-0123456789-0123456789",
];
/// attribute names that may appear in a parsed policy string (no metacharacters)
pub fn parse_safe(name: &str) -> bool {
    !name.is_empty() && !name.contains(['(', ')', '|', '&', ':']) && name.trim() == name
}

// ------------------------------------------------------------------ static structures

#[derive(Clone, Debug, Serialize, Deserialize, Hash, PartialEq, Eq)]
pub struct DimSpec {
    pub name: String,
    pub hier: bool,
    /// attributes in final rank order (lowest first for hierarchies)
    pub attrs: Vec<(String, bool)>,
    /// insertion order: a permutation seed; attributes are inserted in this order with the `after`
    /// argument chosen so that the final order is `attrs`
    pub order_seed: u16,
}

#[derive(Clone, Debug, Serialize, Deserialize, Hash, PartialEq, Eq)]
pub struct StructSpec {
    pub dims: Vec<DimSpec>,
}

impl StructSpec {
    pub fn n_rights(&self) -> usize {
        self.dims.iter().map(|d| d.attrs.len() + 1).product()
    }
    pub fn shape(&self) -> String {
        self.dims
            .iter()
            .map(|d| {
                format!(
                    "{}{}{}",
                    if d.hier { "H" } else { "A" },
                    d.attrs.len(),
                    if d.attrs.iter().any(|a| a.1) { "h" } else { "" }
                )
            })
            .collect::<Vec<_>>()
            .join("x")
    }
    pub fn dim(&self, name: &str) -> Option<&DimSpec> {
        self.dims.iter().find(|d| d.name == name)
    }
    pub fn rank(&self, dim: &str, attr: &str) -> Option<usize> {
        self.dim(dim).and_then(|d| d.attrs.iter().position(|a| a.0 == attr))
    }
    pub fn is_hybrid(&self, dim: &str, attr: &str) -> bool {
        self.dim(dim).and_then(|d| d.attrs.iter().find(|a| a.0 == attr)).map(|a| a.1).unwrap_or(false)
    }

    /// Insertion plan: (dim, attr, hybrid, after) in the order the calls are made.
    pub fn insertion_plan(&self) -> Vec<(String, String, bool, Option<String>)> {
        let mut plan = vec![];
        for d in &self.dims {
            let n = d.attrs.len();
            // permutation from the seed (Fisher-Yates with splitmix)
            let mut perm: Vec<usize> = (0..n).collect();
            let mut bits = Bits::new(d.order_seed as u64);
            if d.order_seed != 0 {
                for i in (1..n).rev() {
                    let j = bits.below(i as u64 + 1) as usize;
                    perm.swap(i, j);
                }
            }
            let mut inserted: Vec<usize> = vec![];
            for &k in &perm {
                // highest already-inserted rank below k
                let after = inserted.iter().copied().filter(|&j| j < k).max();
                let after_name = after.map(|j| d.attrs[j].0.clone());
                plan.push((d.name.clone(), d.attrs[k].0.clone(), d.attrs[k].1, if d.hier { after_name } else { None }));
                inserted.push(k);
            }
        }
        plan
    }

    /// Apply to a real access structure.
    pub fn build(&self, s: &mut AccessStructure) -> Result<(), Error> {
        for d in &self.dims {
            if d.hier {
                s.add_hierarchy(d.name.clone())?;
            } else {
                s.add_anarchy(d.name.clone())?;
            }
        }
        for (d, a, h, after) in self.insertion_plan() {
            s.add_attribute(qa(&d, &a), hint(h), after.as_deref())?;
        }
        Ok(())
    }
}

pub fn struct_spec(max_dims: usize, max_attrs: usize, max_rights: usize, odd_names: bool) -> impl Strategy<Value = StructSpec> {
    let dim = (any::<bool>(), 1..=max_attrs, any::<u16>(), proptest::collection::vec(0u8..4, max_attrs), any::<u16>());
    proptest::collection::vec(dim, 1..=max_dims).prop_map(move |ds| struct_from_raw(ds, max_rights, odd_names))
}

/// Raw per-dimension choices (hierarchical?, attribute count, insertion-order seed, hints, name
/// seed) -> structure; shared by the proptest strategy and the byte decoder of the fuzz target.
pub fn struct_from_raw(ds: Vec<(bool, usize, u16, Vec<u8>, u16)>, max_rights: usize, odd_names: bool) -> StructSpec {
    {
        let mut dims = vec![];
        let mut rights = 1usize;
        for (i, (hier, n, order_seed, hints, name_seed)) in ds.into_iter().enumerate() {
            let mut n = n;
            while n > 1 && rights * (n + 1) > max_rights {
                n -= 1;
            }
            if rights * (n + 1) > max_rights {
                break;
            }
            rights *= n + 1;
            let dname = if odd_names && name_seed % 5 == 0 { DIM_NAMES[4 + (i % 2)] } else { DIM_NAMES[i % 4] };
            let mut attrs = vec![];
            for k in 0..n {
                let base = if odd_names && (name_seed as usize + k) % 4 == 0 { 6 + (k % 5) } else { k % 6 };
                // unique per dimension: suffix with index when the pool wraps
                let nm = format!("{}{}", ATTR_NAMES[base], if k >= 6 { k.to_string() } else { String::new() });
                let nm = if attrs.iter().any(|(x, _): &(String, bool)| *x == nm) { format!("{nm}_{k}") } else { nm };
                // hints: 0,1 classic; 2,3 hybrid with varying density
                attrs.push((nm, hints[k] >= 2));
            }
            let mut dname = dname.to_string();
            if dims.iter().any(|d: &DimSpec| d.name == dname) {
                dname = format!("{dname}{i}");
            }
            dims.push(DimSpec { name: dname, hier, attrs, order_seed });
        }
        if dims.is_empty() {
            dims.push(DimSpec { name: "SEC".into(), hier: true, attrs: vec![("LOW".into(), false)], order_seed: 0 });
        }
        StructSpec { dims }
    }
}

// ------------------------------------------------------------------ policies

/// Symbolic policy: OR of groups; each group is an AND over distinct dimensions of an OR over
/// attributes of that dimension. Selectors are resolved against a structure view at run time.
#[derive(Clone, Debug, Serialize, Deserialize, Hash, PartialEq, Eq)]
pub struct PolicySpec {
    pub broadcast: bool,
    pub groups: Vec<Vec<(u16, Vec<u16>)>>,
    /// rendering choices (association, parentheses, spacing, via-parse)
    pub shape: u64,
    /// `*` operands inside the expression (0 = none): low two bits 1 = `&& *` added to a clause,
    /// 2 = `|| *` added to the alternatives of one dimension (the factor becomes neutral),
    /// 3 = `|| *` added at top level (the whole policy is a broadcast); the other bits pick the place
    #[serde(default)]
    pub stars: u8,
}

/// A structure as policies see it: dimension name, ordered?, attribute names (rank order).
pub type View = Vec<(String, bool, Vec<String>)>;

pub fn view_of(spec: &StructSpec) -> View {
    spec.dims
        .iter()
        .map(|d| (d.name.clone(), d.hier, d.attrs.iter().map(|a| a.0.clone()).collect()))
        .collect()
}

/// Resolved policy at name level. A factor with no name stands for a `*` operand of the
/// conjunction; a factor whose names include "*" is a disjunction with a `*` alternative. Both are
/// neutral in the clause (Boolean reading: `*` is true).
#[derive(Clone, Debug, Serialize, Deserialize, Hash, PartialEq, Eq)]
pub struct RPolicy {
    pub broadcast: bool,
    pub groups: Vec<Vec<(String, Vec<String>)>>,
    pub shape: u64,
}

pub type Conj = Vec<(String, String)>;

impl PolicySpec {
    pub fn resolve(&self, view: &View) -> RPolicy {
        let dims: Vec<&(String, bool, Vec<String>)> = view.iter().filter(|d| !d.2.is_empty()).collect();
        if self.broadcast || dims.is_empty() {
            return RPolicy { broadcast: true, groups: vec![], shape: self.shape };
        }
        let mut groups = vec![];
        for g in &self.groups {
            let mut used: Vec<usize> = vec![];
            let mut rg = vec![];
            for (dsel, asels) in g {
                let di = pick(*dsel, dims.len());
                if used.contains(&di) {
                    continue;
                }
                used.push(di);
                let d = dims[di];
                let mut names: Vec<String> = vec![];
                for a in asels {
                    let n = d.2[pick(*a, d.2.len())].clone();
                    if !names.contains(&n) {
                        names.push(n);
                    }
                }
                if names.is_empty() {
                    names.push(d.2[0].clone());
                }
                rg.push((d.0.clone(), names));
            }
            if !rg.is_empty() {
                groups.push(rg);
            }
        }
        if groups.is_empty() {
            return RPolicy { broadcast: true, groups: vec![], shape: self.shape };
        }
        let mut rp = RPolicy { broadcast: false, groups, shape: self.shape };
        rp.add_stars(self.stars);
        rp
    }

    /// the same policy without `*` operands
    pub fn without_stars(&self) -> Self {
        Self { stars: 0, ..self.clone() }
    }
}

impl RPolicy {
    /// Insert `*` operands (never at index 0 of a clause or of a name list, which the invalid-name
    /// injection of the driver addresses).
    pub fn add_stars(&mut self, stars: u8) {
        if self.broadcast || self.groups.is_empty() || stars & 3 == 0 {
            return;
        }
        let place = (stars >> 2) as usize;
        let gi = place % self.groups.len();
        match stars & 3 {
            1 => self.groups[gi].push((String::new(), vec![])),
            2 => {
                let fi = (place / self.groups.len()) % self.groups[gi].len();
                if !self.groups[gi][fi].1.is_empty() {
                    self.groups[gi][fi].1.push("*".into());
                }
            }
            _ => self.groups.push(vec![(String::new(), vec![])]),
        }
    }
    pub fn has_stars(&self) -> bool {
        self.groups.iter().any(|g| g.iter().any(|(_, ns)| is_star_factor(ns)))
    }
    pub fn broadcast() -> Self {
        RPolicy { broadcast: true, groups: vec![], shape: 0 }
    }
    pub fn single(conj: &[(&str, &str)]) -> Self {
        RPolicy {
            broadcast: false,
            groups: vec![conj.iter().map(|(d, a)| (d.to_string(), vec![a.to_string()])).collect()],
            shape: 0,
        }
    }
    pub fn from_dnf(dnf: &[Conj], shape: u64) -> Self {
        if dnf.iter().any(|c| c.is_empty()) {
            return Self::broadcast();
        }
        RPolicy {
            broadcast: false,
            groups: dnf.iter().map(|c| c.iter().map(|(d, a)| (d.clone(), vec![a.clone()])).collect()).collect(),
            shape,
        }
    }

    /// Name-level DNF: one conjunction per element of the product of each group.
    pub fn dnf(&self) -> Vec<Conj> {
        if self.broadcast {
            return vec![vec![]];
        }
        let mut out: Vec<Conj> = vec![];
        for g in &self.groups {
            let mut acc: Vec<Conj> = vec![vec![]];
            for (d, names) in g {
                if is_star_factor(names) {
                    continue;
                }
                let mut next = vec![];
                for c in &acc {
                    for n in names {
                        let mut c2 = c.clone();
                        c2.push((d.clone(), n.clone()));
                        next.push(c2);
                    }
                }
                acc = next;
            }
            for c in acc {
                let mut c = c;
                c.sort();
                if !out.contains(&c) {
                    out.push(c);
                }
            }
        }
        // `X || *` is `*` (the operators simplify it the same way)
        if out.iter().any(|c| c.is_empty()) {
            return vec![vec![]];
        }
        out
    }

    pub fn parse_safe(&self) -> bool {
        self.groups.iter().all(|g| g.iter().all(|(d, ns)| ns.is_empty() || (parse_safe(d) && ns.iter().all(|n| n == "*" || parse_safe(n)))))
    }

    /// Build the AST directly (no parser involved), with association chosen by `shape`.
    pub fn to_ast(&self) -> AccessPolicy {
        if self.broadcast {
            return AccessPolicy::Broadcast;
        }
        let mut bits = Bits::new(self.shape);
        let groups: Vec<AccessPolicy> = self
            .groups
            .iter()
            .map(|g| {
                let ors: Vec<AccessPolicy> = g
                    .iter()
                    .map(|(d, names)| {
                        let terms: Vec<AccessPolicy> = names.iter().map(|n| if n == "*" { AccessPolicy::Broadcast } else { AccessPolicy::Term(qa(d, n)) }).collect();
                        fold_assoc(terms, false, &mut bits)
                    })
                    .collect();
                fold_assoc(ors, true, &mut bits)
            })
            .collect();
        fold_assoc(groups, false, &mut bits)
    }

    /// Render as a policy string with spacing / parentheses chosen by `shape`.
    pub fn to_string_with_shape(&self) -> String {
        if self.broadcast {
            return "*".to_string();
        }
        let mut bits = Bits::new(self.shape.rotate_left(13));
        render(&self.to_ast(), &mut bits, 0)
    }

    /// The policy object handed to the API: through the parser when possible and chosen by the
    /// shape, directly as an AST otherwise.
    pub fn to_policy(&self) -> Result<(AccessPolicy, bool), String> {
        // `*` inside an expression is only defined by the `&` / `|` operators of the API
        // (identity for AND, absorbing for OR); the documented string grammar has no such form
        // and raw enum nesting of `Broadcast` is not simplified, so such policies are always
        // built with the operators
        let via_parse = self.parse_safe() && (self.shape & 1 == 1) && !self.has_stars();
        if via_parse {
            let s = self.to_string_with_shape();
            match std::panic::catch_unwind(|| AccessPolicy::parse(&s)) {
                Ok(Ok(p)) => Ok((p, true)),
                Ok(Err(e)) => Err(format!("parse of generated policy '{s}' failed: {e}")),
                Err(_) => {
                    let (loc, msg) = crate::runner::take_panic();
                    Err(format!("parse of generated policy '{s}' panicked at {loc}: {msg}"))
                }
            }
        } else if self.shape & 2 == 2 || self.has_stars() {
            // built with the `&` / `|` operators of the API instead of the enum constructors
            Ok((with_operators(&self.to_ast()), false))
        } else {
            Ok((self.to_ast(), false))
        }
    }

    pub fn describe(&self) -> String {
        if self.broadcast {
            return "*".into();
        }
        self.groups
            .iter()
            .map(|g| {
                g.iter()
                    .map(|(d, ns)| {
                        let one = |n: &String| if n == "*" { "*".to_string() } else { format!("{d}::{n}") };
                        if ns.is_empty() {
                            "*".to_string()
                        } else if ns.len() == 1 {
                            one(&ns[0])
                        } else {
                            format!("({})", ns.iter().map(one).collect::<Vec<_>>().join(" || "))
                        }
                    })
                    .collect::<Vec<_>>()
                    .join(" && ")
            })
            .collect::<Vec<_>>()
            .join(" || ")
    }
}

pub fn is_star_factor(names: &[String]) -> bool {
    names.is_empty() || names.iter().any(|n| n == "*")
}

/// Rebuild a policy bottom-up with the `BitAnd` / `BitOr` operators.
pub fn with_operators(p: &AccessPolicy) -> AccessPolicy {
    match p {
        AccessPolicy::Conjunction(a, b) => with_operators(a) & with_operators(b),
        AccessPolicy::Disjunction(a, b) => with_operators(a) | with_operators(b),
        x => x.clone(),
    }
}

fn fold_assoc(mut xs: Vec<AccessPolicy>, and: bool, bits: &mut Bits) -> AccessPolicy {
    let mk = |a: AccessPolicy, b: AccessPolicy| {
        if and {
            AccessPolicy::Conjunction(Box::new(a), Box::new(b))
        } else {
            AccessPolicy::Disjunction(Box::new(a), Box::new(b))
        }
    };
    while xs.len() > 1 {
        let i = bits.below(xs.len() as u64 - 1) as usize;
        let b = xs.remove(i + 1);
        let a = xs.remove(i);
        xs.insert(i, mk(a, b));
    }
    xs.pop().unwrap_or(AccessPolicy::Broadcast)
}

fn sp(bits: &mut Bits) -> &'static str {
    match bits.below(4) {
        0 => "",
        1 | 2 => " ",
        _ => "  ",
    }
}

/// prec: 0 = top / inside OR, 1 = inside AND
pub fn render(p: &AccessPolicy, bits: &mut Bits, prec: u8) -> String {
    match p {
        AccessPolicy::Broadcast => "*".into(),
        AccessPolicy::Term(q) => {
            let core = if bits.below(6) == 0 {
                format!("{}{}::{}{}", q.dimension, sp(bits), sp(bits), q.name)
            } else {
                format!("{}::{}", q.dimension, q.name)
            };
            if bits.below(8) == 0 {
                format!("({}{}{})", sp(bits), core, sp(bits))
            } else {
                core
            }
        }
        AccessPolicy::Conjunction(a, b) => {
            let s = format!("{}{}&&{}{}", render(a, bits, 1), sp(bits), sp(bits), render(b, bits, 1));
            if bits.below(6) == 0 {
                format!("({s})")
            } else {
                s
            }
        }
        AccessPolicy::Disjunction(a, b) => {
            let s = format!("{}{}||{}{}", render(a, bits, 0), sp(bits), sp(bits), render(b, bits, 0));
            if prec == 1 || bits.below(6) == 0 {
                format!("({s})")
            } else {
                s
            }
        }
    }
}

pub fn policy_spec(max_groups: usize, max_dims: usize, max_alts: usize) -> impl Strategy<Value = PolicySpec> {
    let group = proptest::collection::vec((any::<u16>(), proptest::collection::vec(any::<u16>(), 1..=max_alts)), 1..=max_dims);
    (
        prop::bool::weighted(0.06),
        proptest::collection::vec(group, 1..=max_groups),
        any::<u64>(),
        prop_oneof![4 => Just(0u8), 1 => any::<u8>()],
    )
        .prop_map(|(broadcast, groups, shape, stars)| PolicySpec { broadcast, groups, shape, stars })
}

// ------------------------------------------------------------------ name-level cover relation

/// rank lookup for the cover predicate: (is hierarchical, rank of attribute) or None if unknown
pub trait RankView {
    fn hier(&self, dim: &str) -> Option<bool>;
    fn rank(&self, dim: &str, attr: &str) -> Option<usize>;
}

impl RankView for StructSpec {
    fn hier(&self, dim: &str) -> Option<bool> {
        self.dim(dim).map(|d| d.hier)
    }
    fn rank(&self, dim: &str, attr: &str) -> Option<usize> {
        StructSpec::rank(self, dim, attr)
    }
}

/// Does user clause `u` cover encryption conjunction `c`? (property C01 statement)
pub fn clause_covers(v: &dyn RankView, u: &Conj, c: &Conj) -> bool {
    c.iter().all(|(d, a)| match u.iter().find(|(ud, _)| ud == d) {
        None => true,
        Some((_, ua)) => {
            if ua == a {
                true
            } else if v.hier(d) == Some(true) {
                match (v.rank(d, a), v.rank(d, ua)) {
                    (Some(ra), Some(ru)) => ra <= ru,
                    _ => false,
                }
            } else {
                false
            }
        }
    })
}

pub fn policy_covers(v: &dyn RankView, user: &[Conj], enc: &[Conj]) -> bool {
    enc.iter().any(|c| user.iter().any(|u| clause_covers(v, u, c)))
}

/// A fixed large structure: 4 dimensions, 7*6*5*3 = 630 rights (count fields need two LEB128
/// bytes), one attribute name and one dimension name longer than 127 bytes.
pub fn big_spec() -> StructSpec {
    let long_attr = format!("attribute-with-a-very-long-name-{}", "x".repeat(110));
    let long_dim = format!("Dimension {}", "long ".repeat(30)).trim().to_string();
    let mk = |name: &str, hier: bool, n: usize, hyb_every: usize, seed: u16| DimSpec {
        name: name.to_string(),
        hier,
        attrs: (0..n).map(|i| (if i == 1 && name == "SEC" { long_attr.clone() } else { format!("{}{}", name.chars().next().unwrap().to_ascii_lowercase(), i) }, hyb_every > 0 && i % hyb_every == 0)).collect(),
        order_seed: seed,
    };
    StructSpec { dims: vec![mk("SEC", true, 6, 3, 11), mk("DPT", false, 5, 0, 0), mk(&long_dim, true, 4, 2, 5), mk("CTR", false, 2, 0, 0)] }
}
