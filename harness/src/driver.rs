//! Operation interpreter: drives the real API and the reference model in lock-step and compares
//! results, serialized state (through the independent codec) and decapsulation verdicts.

#![allow(dead_code)]

use crate::ccx::*;
use crate::gen::{pick, Conj, PolicySpec, RPolicy, ATTR_NAMES, DIM_NAMES};
use crate::model::*;
use crate::report::Fail;
use crate::wire::{self, WMpk, WMsk, WStructure, WUsk, WXEnc};
use serde::{Deserialize, Serialize};
use std::collections::{BTreeMap, BTreeSet, HashMap};

#[derive(Clone, Debug, Serialize, Deserialize, Hash, PartialEq, Eq)]
pub enum Op {
    AddDim { name: u8, hier: bool },
    DelDim { dim: u16, bad: bool },
    AddAttr { dim: u16, name: u8, hybrid: bool, after: Option<u16>, bad: u8 },
    DelAttr { dim: u16, attr: u16, bad: bool },
    Rename { dim: u16, attr: u16, new: u8, bad: bool },
    Disable { dim: u16, attr: u16, bad: bool },
    Update,
    Rekey { ap: PolicySpec, bad: u8 },
    Prune { ap: PolicySpec, bad: u8 },
    KeyGen { ap: PolicySpec, bad: u8 },
    Refresh { usk: u16, keep: bool },
    Encaps { mpk: u16, ap: PolicySpec, bad: u8 },
    /// encapsulate for a conjunction derived from an existing user key (authorized pairs frequent)
    EncapsFor { mpk: u16, usk: u16, variant: u8 },
    /// encapsulate for the disjunction of all attributes of one dimension (as many targets as
    /// the dimension has attributes)
    EncapsWide { mpk: u16, dim: u16 },
    Check,
    RoundTrip { what: u8, sel: u16 },
    Recaps { enc: u16, mpk: u16 },
    ProbeStale { back: u8, usk: u16, keep: bool },
    ProbeForged { usk: u16, kind: u8, keep: bool },
}

impl Op {
    pub fn kind(&self) -> &'static str {
        match self {
            Op::AddDim { .. } => "AddDim",
            Op::DelDim { .. } => "DelDim",
            Op::AddAttr { .. } => "AddAttr",
            Op::DelAttr { .. } => "DelAttr",
            Op::Rename { .. } => "Rename",
            Op::Disable { .. } => "Disable",
            Op::Update => "Update",
            Op::Rekey { .. } => "Rekey",
            Op::Prune { .. } => "Prune",
            Op::KeyGen { .. } => "KeyGen",
            Op::Refresh { .. } => "Refresh",
            Op::Encaps { .. } => "Encaps",
            Op::EncapsFor { .. } => "EncapsFor",
            Op::EncapsWide { .. } => "EncapsWide",
            Op::Check => "Check",
            Op::RoundTrip { .. } => "RoundTrip",
            Op::Recaps { .. } => "Recaps",
            Op::ProbeStale { .. } => "ProbeStale",
            Op::ProbeForged { .. } => "ProbeForged",
        }
    }
}

/// Why the interpretation of a history stopped early.
pub enum Abort {
    /// a failure attributed to the property under check
    Violation(Fail),
    /// a failure that belongs to other properties only: counted, case ends
    OffProperty(String),
}

pub type Step<T = ()> = Result<T, Abort>;

pub struct RealUsk {
    pub key: UserSecretKey,
    pub m: MUsk,
    /// serialized marker vector as issued / last refreshed
    pub id_bytes: Vec<Vec<u8>>,
}

pub struct RealEnc {
    pub enc: XEnc,
    pub secret: Vec<u8>,
    pub m: MEnc,
    pub from_recaps: bool,
}

pub struct World {
    pub focus: String,
    /// the authority's instance: setup, update, rekey, prune, key generation, refresh, recaps
    pub cc: Covercrypt,
    /// the instance of everybody else (encapsulation, decapsulation): authority and users do not
    /// share a process, so nothing an instance remembers may be needed by, or leak into, the other
    pub user_cc: Covercrypt,
    /// alternates the order in which the decapsulation matrix is walked
    pub matrix_parity: bool,
    pub msk: MasterSecretKey,
    pub m: MMsk,
    pub mpks: Vec<(MasterPublicKey, MMpk)>,
    pub usks: Vec<RealUsk>,
    pub encs: Vec<RealEnc>,
    pub next_uid: Uid,
    pub next_rev: RevId,
    pub next_user: usize,
    /// secret-key bytes of each model revision, learnt from the serialized MSK when it is created
    pub rev_bytes: HashMap<RevId, Vec<u8>>,
    /// every integer id ever observed for an attribute in this history -> model uid
    pub ids_seen: HashMap<u64, Uid>,
    /// real ids of deleted attributes (uid -> id), to map rights the MSK still holds
    pub dead_ids: HashMap<Uid, u64>,
    pub trace: Vec<String>,
    pub events: BTreeSet<&'static str>,
    pub counters: BTreeMap<&'static str, u64>,
    pub msk_history: Vec<(Vec<u8>, MMsk)>,
    pub checks_done: u64,
    pub asserted_outcomes: u64,
    pub max_usks: usize,
    pub max_encs: usize,
    /// number of wire-level comparisons performed
    pub wire_checks: u64,
    pub injected_roundtrip_at: Option<u64>,
    pub outcomes_after_roundtrip: u64,
    /// failures at sites that belong to other properties only and do not desynchronise the model: counted, the case goes on
    pub off_soft: std::cell::RefCell<Vec<String>>,
    /// number of tracers of the master key (2 = tracing level 1, what setup() creates)
    pub n_tracers: usize,
}

fn dnf_str(dnf: &[Conj]) -> String {
    if dnf.iter().any(|c| c.is_empty()) {
        return "*".into();
    }
    dnf.iter()
        .map(|c| c.iter().map(|(d, a)| format!("{d}::{a}")).collect::<Vec<_>>().join(" && "))
        .collect::<Vec<_>>()
        .join(" || ")
}

impl World {
    pub fn new(focus: &str) -> Result<Self, Fail> {
        let cc = Covercrypt::default();
        let (msk, mpk) = cc.setup().map_err(|e| Fail::new("setup-failed", short_err(&e)))?;
        let mut m = MMsk::default();
        let mut next_rev = 0;
        let (_e, _created) = m.update(&mut next_rev);
        let mm = m.mpk();
        let mut w = World {
            focus: focus.to_string(),
            cc,
            user_cc: Covercrypt::default(),
            matrix_parity: false,
            msk,
            m,
            mpks: vec![(mpk, mm)],
            usks: vec![],
            encs: vec![],
            next_uid: 0,
            next_rev,
            next_user: 0,
            rev_bytes: HashMap::new(),
            ids_seen: HashMap::new(),
            dead_ids: HashMap::new(),
            trace: vec![],
            events: BTreeSet::new(),
            counters: BTreeMap::new(),
            msk_history: vec![],
            checks_done: 0,
            asserted_outcomes: 0,
            max_usks: 6,
            max_encs: 8,
            wire_checks: 0,
            injected_roundtrip_at: None,
            outcomes_after_roundtrip: 0,
            off_soft: std::cell::RefCell::new(vec![]),
            n_tracers: 2,
        };
        // learn the bytes of the initial broadcast secret
        if let Ok(b) = ser(&w.msk) {
            if let Ok(wm) = WMsk::decode(&b) {
                if let Some(chain) = wm.chain(&[]) {
                    if let Some((_, s)) = chain.first() {
                        w.rev_bytes.insert(0, s.sk.clone());
                    }
                }
            }
        }
        Ok(w)
    }

    /// Append `extra` tracers to the (still user-less) master key through its serialized form:
    /// the API only creates tracing level 1, higher levels are reachable by deserialization.
    pub fn raise_tracing_level(&mut self, extra: u8) -> Step {
        if extra == 0 {
            return Ok(());
        }
        let b = self.snapshot_msk()?;
        let mut wm = match WMsk::decode(&b) {
            Ok(w) => w,
            Err(e) => return self.fail(&["C13"], "codec-cannot-decode-msk", e),
        };
        for k in 0..extra as usize {
            let t = wm.tracers[k % wm.tracers.len()].clone();
            wm.tracers.push(t);
        }
        self.msk = match de(&wm.encode()) {
            Ok(m) => m,
            Err(e) => return self.fail(&["C13", "C14"], "higher-tracing-level-msk-rejected", e),
        };
        self.n_tracers = wm.tracers.len();
        match self.msk.mpk() {
            Ok(mpk) => {
                let mm = self.m.mpk();
                self.mpks = vec![(mpk, mm)];
            }
            Err(e) => return self.fail(&["C13", "C09"], "mpk-derivation-failed", short_err(&e)),
        }
        self.log(format!("master key given {} tracers through its serialized form", self.n_tracers));
        Ok(())
    }

    pub fn count(&mut self, k: &'static str) {
        *self.counters.entry(k).or_insert(0) += 1;
    }

    fn log(&mut self, s: String) {
        self.trace.push(s);
    }

    /// Raise a failure at a site that belongs to `props`.
    pub fn fail<T>(&self, props: &[&str], sig: &str, msg: String) -> Step<T> {
        let tail: Vec<String> = self.trace.iter().rev().take(60).rev().cloned().collect();
        let full = format!("{msg}\n  history:\n    {}", tail.join("\n    "));
        if props.contains(&self.focus.as_str()) || self.focus == "*" {
            Err(Abort::Violation(Fail::new(sig, full)))
        } else {
            Err(Abort::OffProperty(format!("{sig} [{}]", props.join(","))))
        }
    }

    /// Like `fail`, for observation sites (serialized state, snapshots): when the site does not
    /// belong to the property under check the failure is counted and the case continues, so that
    /// the property's own observations (verdicts, Ok/Err) are still reached.
    pub fn soft(&self, props: &[&str], sig: &str, msg: String) -> Step {
        if props.contains(&self.focus.as_str()) || self.focus == "*" {
            self.fail(props, sig, msg)
        } else {
            let mut o = self.off_soft.borrow_mut();
            if o.len() < 16 {
                o.push(format!("{sig} [{}]", props.join(",")));
            }
            Ok(())
        }
    }

    // ------------------------------------------------------------------ name resolution

    fn dim_name(&self, sel: u16, bad: bool) -> String {
        if bad || self.m.structure.dims.is_empty() {
            return "NoSuchDim".into();
        }
        self.m.structure.dims[pick(sel, self.m.structure.dims.len())].name.clone()
    }
    fn attr_name(&self, dim: &str, sel: u16, bad: bool) -> String {
        match self.m.structure.dim(dim) {
            Some(d) if !d.attrs.is_empty() && !bad => d.attrs[pick(sel, d.attrs.len())].name.clone(),
            _ => "nope".into(),
        }
    }

    /// Resolve a symbolic policy against a structure; `bad` injects an invalid element.
    fn resolve(&self, ap: &PolicySpec, st: &MStructure, bad: u8, for_enc: bool) -> (RPolicy, Vec<Conj>, &'static str) {
        // `*` operands only in policies without an injected invalid element
        let mut rp = if bad % 16 == 0 { ap.resolve(&st.view()) } else { ap.without_stars().resolve(&st.view()) };
        let mut note = "";
        // the invalid element goes into the first or (when there are several clauses) the last one
        let gi = if rp.groups.len() > 1 && (ap.shape >> 7) & 1 == 1 { rp.groups.len() - 1 } else { 0 };
        match bad % 16 {
            1 if !rp.broadcast => {
                rp.groups[gi][0].1[0] = "nope".into();
                note = "unknown-attribute";
            }
            2 if !rp.broadcast => {
                rp.groups[gi][0].0 = "NoSuchDim".into();
                note = "unknown-dimension";
            }
            3 if for_enc && !rp.broadcast => {
                // two attributes of one dimension in a conjunction
                let (d, names) = rp.groups[0][0].clone();
                if let Some(dim) = st.dim(&d) {
                    if let Some(other) = dim.attrs.iter().find(|a| !names.contains(&a.name)) {
                        rp.groups[0][0].1.truncate(1);
                        rp.groups[0].push((d.clone(), vec![other.name.clone()]));
                        note = "two-attrs-one-dim";
                    }
                }
            }
            _ => {}
        }
        let dnf = rp.dnf();
        (rp, dnf, note)
    }

    fn real_policy(&self, rp: &RPolicy) -> Step<AccessPolicy> {
        match rp.to_policy() {
            Ok((p, _)) => Ok(p),
            Err(e) => self.fail(&["C15", "C09"], "generated-policy-rejected-by-parser", e),
        }
    }

    // ------------------------------------------------------------------ real <-> model rights

    fn real_id(&self, uid: Uid) -> Option<u64> {
        if let Some((_, a)) = self.m.structure.attr_by_uid(uid) {
            return a.real_id;
        }
        self.dead_ids.get(&uid).copied()
    }

    pub fn right_bytes(&self, r: &RightM) -> Option<Vec<u8>> {
        let ids: Option<Vec<u64>> = r.iter().map(|u| self.real_id(*u)).collect();
        ids.map(|v| wire::right_bytes(&v))
    }

    // ------------------------------------------------------------------ wire-level comparison

    /// Compare the serialized MSK with the model: rights, chain lengths, flags, flavours, users,
    /// structure; learn the bytes of newly created revisions.
    pub fn compare_msk(&mut self, created: &[(RightM, RevId)]) -> Step {
        let bytes = match ser(&self.msk) {
            Ok(b) => b,
            Err(f) => return self.soft(&["C13"], "msk-serialize-failed", f.message),
        };
        let wm = match WMsk::decode(&bytes) {
            Ok(w) => w,
            Err(e) => return self.soft(&["C13"], "codec-cannot-decode-msk", format!("independent codec cannot decode the serialized MSK: {e}")),
        };
        self.wire_checks += 1;
        if wm.encode() != bytes {
            return self.soft(&["C13"], "codec-reencode-differs-msk", "re-encoding the decoded MSK differs from the serialized bytes".into());
        }
        self.compare_structure(&wm.structure, &self.m.structure.clone(), "msk")?;
        // the listing accessors of the live object agree with the model too
        {
            let got_d: BTreeSet<String> = self.msk.access_structure.dimensions().map(|d| d.to_string()).collect();
            let want_d: BTreeSet<String> = self.m.structure.dims.iter().map(|d| d.name.clone()).collect();
            let got_a: BTreeSet<(String, String)> = self.msk.access_structure.attributes().map(|q| (q.dimension, q.name)).collect();
            let want_a: BTreeSet<(String, String)> = self.m.structure.dims.iter().flat_map(|d| d.attrs.iter().map(move |a| (d.name.clone(), a.name.clone()))).collect();
            let n_a = self.msk.access_structure.attributes().count();
            if got_d != want_d || got_a != want_a || n_a != want_a.len() {
                return self.soft(&["C03", "C13"], "structure-accessors", format!("dimensions() / attributes() list {got_d:?} / {} attributes, model has {want_d:?} / {}", n_a, want_a.len()));
            }
        }
        // rights
        let mut expected: BTreeMap<Vec<u8>, (&RightM, &Vec<MRev>)> = BTreeMap::new();
        for (r, chain) in &self.m.rights {
            match self.right_bytes(r) {
                Some(b) => {
                    if expected.insert(b.clone(), (r, chain)).is_some() {
                        return self.soft(&["C03"], "two-model-rights-share-one-real-right", format!("two distinct attribute combinations map to the same serialized right {}", wire::hex(&b)));
                    }
                }
                None => return self.soft(&["C13"], "internal-missing-real-id", format!("no real id for right {r:?}")),
            }
        }
        let real: BTreeMap<Vec<u8>, &Vec<(u64, wire::WSecret)>> = wm.rights.iter().map(|(r, c)| (r.clone(), c)).collect();
        if real.len() != wm.rights.len() {
            return self.soft(&["C13"], "msk-duplicate-right", "serialized MSK lists a right twice".into());
        }
        for (b, (r, chain)) in &expected {
            let Some(rc) = real.get(b) else {
                return self.soft(&["C03", "C05", "C13", "C10"], "msk-right-missing", format!("MSK lacks right {:?} ({}) the model holds", self.describe_right(r), wire::hex(b)));
            };
            if rc.len() != chain.len() {
                return self.soft(&["C04", "C05", "C13", "C10"], "msk-chain-length", format!("right {:?}: MSK chain has {} secrets, model {}", self.describe_right(r), rc.len(), chain.len()));
            }
            for (k, (rev, (act, sec))) in chain.iter().zip(rc.iter()).enumerate() {
                if (*act == 1) != rev.activated {
                    return self.soft(&["C06", "C13"], "msk-activation-flag", format!("right {:?} revision #{k}: activation flag {} but model says activated={}", self.describe_right(r), act, rev.activated));
                }
                if sec.hyb != rev.hybrid {
                    return self.soft(&["C11", "C13"], "msk-flavour", format!("right {:?} revision #{k}: hybridized={} but the model says {}", self.describe_right(r), sec.hyb, rev.hybrid));
                }
                match self.rev_bytes.get(&rev.id) {
                    Some(known) => {
                        if known != &sec.sk {
                            return self.soft(&["C04", "C05", "C13", "C10"], "msk-secret-changed", format!("right {:?} revision #{k}: secret bytes differ from when it was created", self.describe_right(r)));
                        }
                    }
                    None => {
                        if created.iter().any(|(_, id)| *id == rev.id) {
                            if self.rev_bytes.values().any(|v| v == &sec.sk) {
                                return self.soft(&["C16", "C04"], "new-secret-not-fresh", format!("right {:?}: freshly created secret equals an existing one", self.describe_right(r)));
                            }
                        }
                    }
                }
            }
        }
        for b in real.keys() {
            if !expected.contains_key(b) {
                return self.soft(&["C03", "C05", "C13", "C10"], "msk-extra-right", format!("MSK holds right {} the model does not", wire::hex(b)));
            }
        }
        // learn new bytes
        for (b, (_r, chain)) in &expected {
            let rc = real[b];
            for (rev, (_, sec)) in chain.iter().zip(rc.iter()) {
                self.rev_bytes.entry(rev.id).or_insert_with(|| sec.sk.clone());
            }
        }
        // users
        if wm.users.len() != self.m.users.len() {
            return self.soft(&["C17", "C13", "C10"], "msk-user-count", format!("MSK registers {} user ids, model {}", wm.users.len(), self.m.users.len()));
        }
        if wm.tracers.len() != self.n_tracers {
            return self.soft(&["C17", "C13"], "msk-tracer-count", format!("MSK has {} tracers, expected {}", wm.tracers.len(), self.n_tracers));
        }
        if wm.signing_key.is_none() {
            return self.soft(&["C08", "C13"], "msk-no-signing-key", "MSK has no signing key".into());
        }
        Ok(())
    }

    fn describe_right(&self, r: &RightM) -> String {
        let names: Vec<String> = r
            .iter()
            .map(|u| match self.m.structure.attr_by_uid(*u) {
                Some((d, a)) => format!("{}::{}", d.name, a.name),
                None => format!("<deleted #{u}>"),
            })
            .collect();
        if names.is_empty() {
            "{broadcast}".into()
        } else {
            format!("{{{}}}", names.join(", "))
        }
    }

    fn compare_structure(&self, ws: &WStructure, ms: &MStructure, what: &str) -> Step {
        if ws.dims.len() != ms.dims.len() {
            return self.soft(&["C03", "C13"], "structure-dimension-count", format!("{what}: serialized structure has {} dimensions, model {}", ws.dims.len(), ms.dims.len()));
        }
        for d in &ms.dims {
            let Some(wd) = ws.dim(&d.name) else {
                return self.soft(&["C03", "C13"], "structure-dimension-missing", format!("{what}: dimension {} missing from the serialized structure", d.name));
            };
            if (wd.ordered == 1) != d.hier {
                return self.soft(&["C03", "C13"], "structure-dimension-kind", format!("{what}: dimension {} kind differs", d.name));
            }
            if wd.attrs.len() != d.attrs.len() {
                return self.soft(&["C03", "C13"], "structure-attribute-count", format!("{what}: dimension {} has {} attributes, model {}", d.name, wd.attrs.len(), d.attrs.len()));
            }
            if d.hier {
                let got: Vec<&str> = wd.attrs.iter().map(|a| a.name.as_str()).collect();
                let want: Vec<&str> = d.attrs.iter().map(|a| a.name.as_str()).collect();
                if got != want {
                    return self.soft(&["C03", "C13"], "hierarchy-order", format!("{what}: hierarchy {} is ordered {got:?}, documented insertion rule gives {want:?}", d.name));
                }
            }
            for a in &d.attrs {
                let Some(wa) = wd.attrs.iter().find(|x| x.name == a.name) else {
                    return self.soft(&["C03", "C13"], "structure-attribute-missing", format!("{what}: attribute {}::{} missing", d.name, a.name));
                };
                if (wa.hint == 1) != a.hybrid {
                    return self.soft(&["C11", "C13"], "structure-hint", format!("{what}: attribute {}::{} hint differs", d.name, a.name));
                }
                if (wa.status == 0) != a.disabled {
                    return self.soft(&["C06", "C13"], "structure-status", format!("{what}: attribute {}::{} status differs", d.name, a.name));
                }
                if let Some(id) = a.real_id {
                    if wa.id != id {
                        return self.soft(&["C03", "C13"], "attribute-id-changed", format!("{what}: attribute {}::{} id changed from {} to {}", d.name, a.name, id, wa.id));
                    }
                }
            }
        }
        Ok(())
    }

    /// After a successful AddAttr: learn the integer id and check uniqueness against every id any
    /// live or deleted attribute ever had in this history.
    fn learn_attr_id(&mut self, dim: &str, name: &str, uid: Uid) -> Step {
        let bytes = match ser(&self.msk.access_structure) {
            Ok(b) => b,
            Err(f) => return self.fail(&["C13"], "structure-serialize-failed", f.message),
        };
        let ws = match WStructure::decode(&bytes) {
            Ok(w) => w,
            Err(e) => return self.fail(&["C13"], "codec-cannot-decode-structure", e),
        };
        let Some(wa) = ws.attr(dim, name) else {
            return self.fail(&["C03", "C13"], "structure-attribute-missing", format!("attribute {dim}::{name} missing right after add_attribute"));
        };
        let id = wa.id;
        if let Some(prev) = self.ids_seen.get(&id) {
            let who = match self.m.structure.attr_by_uid(*prev) {
                Some((d, a)) => format!("live attribute {}::{}", d.name, a.name),
                None => "a deleted attribute".to_string(),
            };
            let sig = if self.m.structure.attr_by_uid(*prev).is_some() { "attribute-id-reused-live" } else { "attribute-id-reused-deleted" };
            return self.fail(&["C03"], sig, format!("new attribute {dim}::{name} received integer id {id}, already used by {who} in this history"));
        }
        self.ids_seen.insert(id, uid);
        if let Some(d) = self.m.structure.dim_mut(dim) {
            if let Some(a) = d.attrs.iter_mut().find(|a| a.name == name) {
                a.real_id = Some(id);
            }
        }
        Ok(())
    }

    fn remember_dead(&mut self, before: &MStructure) {
        for d in &before.dims {
            for a in &d.attrs {
                if self.m.structure.attr_by_uid(a.uid).is_none() {
                    if let Some(id) = a.real_id {
                        self.dead_ids.insert(a.uid, id);
                    }
                }
            }
        }
    }

    pub fn compare_mpk(&mut self, mpk: &MasterPublicKey, mm: &MMpk) -> Step {
        let bytes = match ser(mpk) {
            Ok(b) => b,
            Err(f) => return self.soft(&["C13"], "mpk-serialize-failed", f.message),
        };
        let wp = match WMpk::decode(&bytes) {
            Ok(w) => w,
            Err(e) => return self.soft(&["C13"], "codec-cannot-decode-mpk", e),
        };
        self.wire_checks += 1;
        if wp.encode() != bytes {
            return self.soft(&["C13"], "codec-reencode-differs-mpk", "re-encoding the decoded MPK differs".into());
        }
        self.compare_structure(&wp.structure, &mm.structure, "mpk")?;
        if wp.keys.len() != mm.keys.len() {
            let props: &[&str] = if wp.keys.len() > mm.keys.len() { &["C06", "C13", "C03"] } else { &["C13", "C03", "C04"] };
            return self.soft(props, "mpk-right-count", format!("MPK publishes {} rights, model {}", wp.keys.len(), mm.keys.len()));
        }
        for (r, (_rev, hyb)) in &mm.keys {
            let Some(b) = self.right_bytes(r) else { continue };
            match wp.key(&b) {
                None => return self.soft(&["C13", "C03", "C06"], "mpk-right-missing", format!("MPK lacks a key for right {}", self.describe_right(r))),
                Some(k) => {
                    if k.hyb != *hyb {
                        return self.soft(&["C11", "C13"], "mpk-flavour", format!("MPK key of right {} has hybridized={}, model {}", self.describe_right(r), k.hyb, hyb));
                    }
                }
            }
        }
        Ok(())
    }

    pub fn compare_usk(&mut self, idx: usize) -> Step {
        let bytes = match ser(&self.usks[idx].key) {
            Ok(b) => b,
            Err(f) => return self.soft(&["C13"], "usk-serialize-failed", f.message),
        };
        let wu = match WUsk::decode(&bytes) {
            Ok(w) => w,
            Err(e) => return self.soft(&["C13"], "codec-cannot-decode-usk", e),
        };
        self.wire_checks += 1;
        if wu.encode() != bytes {
            return self.soft(&["C13"], "codec-reencode-differs-usk", "re-encoding the decoded USK differs".into());
        }
        let m = self.usks[idx].m.clone();
        if wu.rights.len() != m.rights.len() {
            return self.soft(&["C05", "C04", "C03", "C13"], "usk-right-count", format!("user key '{}' holds {} rights, model {}", m.policy, wu.rights.len(), m.rights.len()));
        }
        for (r, revs) in &m.rights {
            let Some(b) = self.right_bytes(r) else { continue };
            let Some(chain) = wu.chain(&b) else {
                return self.soft(&["C05", "C04", "C03", "C13"], "usk-right-missing", format!("user key '{}' lacks right {}", m.policy, self.describe_right(r)));
            };
            if chain.len() != revs.len() {
                return self.soft(&["C04", "C05", "C13"], "usk-chain-length", format!("user key '{}' right {}: chain has {} secrets, model {} ({:?})", m.policy, self.describe_right(r), chain.len(), revs.len(), revs));
            }
            for (k, (rev, sec)) in revs.iter().zip(chain.iter()).enumerate() {
                if let Some(known) = self.rev_bytes.get(rev) {
                    if known != &sec.sk {
                        return self.soft(&["C04", "C05", "C13"], "usk-chain-content", format!("user key '{}' right {}: secret #{k} is not revision {rev} of the master key", m.policy, self.describe_right(r)));
                    }
                }
                let want_h = self.m.rights.get(r).and_then(|c| c.iter().find(|x| x.id == *rev)).map(|x| x.hybrid);
                if let Some(h) = want_h {
                    if sec.hyb != h {
                        return self.soft(&["C11", "C13"], "usk-flavour", format!("user key '{}' right {}: secret #{k} hybridized={}, model {}", m.policy, self.describe_right(r), sec.hyb, h));
                    }
                }
            }
        }
        if wu.signature.is_none() {
            return self.soft(&["C08", "C13"], "usk-unsigned", "issued user key carries no signature".into());
        }
        self.usks[idx].id_bytes = wu.id.clone();
        Ok(())
    }

    // ------------------------------------------------------------------ decapsulation matrix

    pub fn check_matrix(&mut self) -> Step {
        self.checks_done += 1;
        let removed = self.encs.iter().any(|e| {
            e.m.targets
                .iter()
                .any(|(r, rev)| !self.m.rights.get(r).map(|c| c.iter().any(|m| m.id == *rev)).unwrap_or(false))
        });
        if removed && !self.usks.is_empty() {
            self.events.insert("enc-under-removed-revision-at-check");
        }
        // every other walk goes backwards: the pair judged last is then judged first next time,
        // whatever happened to its key in between
        let mut pairs: Vec<(usize, usize)> = (0..self.usks.len()).flat_map(|ui| (0..self.encs.len()).map(move |ei| (ui, ei))).collect();
        if self.matrix_parity {
            pairs.reverse();
        }
        self.matrix_parity = !self.matrix_parity;
        for (ui, ei) in pairs {
            self.check_pair(ui, ei)?;
        }
        Ok(())
    }

    pub fn check_pair(&mut self, ui: usize, ei: usize) -> Step {
        let expected = opens(&self.usks[ui].m, &self.encs[ei].m);
        let r = self.user_cc.decaps(&self.usks[ui].key, &self.encs[ei].enc);
        self.asserted_outcomes += 1;
        if self.injected_roundtrip_at.is_some() {
            self.outcomes_after_roundtrip += 1;
        }
        let recaps = self.encs[ei].from_recaps;
        let ctx = format!(
            "user key #{ui} '{}' (refreshed {}x) vs encapsulation #{ei} '{}' made under public key #{}",
            self.usks[ui].m.policy, self.usks[ui].m.refreshed, self.encs[ei].m.policy, self.encs[ei].m.mpk_index
        );
        match r {
            Err(e) => {
                let props: &[&str] = if recaps { &["C18"] } else { &["C01", "C02", "C03", "C04", "C05", "C06", "C09", "C13"] };
                self.fail(props, "decaps-error-on-valid-objects", format!("{ctx}: decaps returned Err({})", short_err(&e)))
            }
            Ok(Some(s)) => {
                if !expected {
                    self.count("verdict:unauthorized-opened");
                    let props: &[&str] = if recaps { &["C18"] } else { &["C02", "C03", "C04", "C05", "C13"] };
                    let leak = s.to_vec() == self.encs[ei].secret;
                    self.fail(props, "unauthorized-key-opens", format!("{ctx}: model says NOT authorized, decaps returned a secret ({})", if leak { "the encapsulated one" } else { "a different one" }))
                } else if s.to_vec() != self.encs[ei].secret {
                    let props: &[&str] = if recaps { &["C18"] } else { &["C01", "C02", "C07", "C03", "C04", "C13"] };
                    self.fail(props, "wrong-secret", format!("{ctx}: decaps returned a secret different from the encapsulated one"))
                } else {
                    self.count("verdict:authorized-opened");
                    Ok(())
                }
            }
            Ok(None) => {
                if expected {
                    let props: &[&str] = if recaps { &["C18"] } else { &["C01", "C03", "C04", "C05", "C06", "C13"] };
                    self.fail(props, "authorized-key-cannot-open", format!("{ctx}: model says authorized, decaps returned None"))
                } else {
                    self.count("verdict:unauthorized-refused");
                    Ok(())
                }
            }
        }
    }

    // ------------------------------------------------------------------ snapshots for C10

    fn snapshot_msk(&self) -> Step<Vec<u8>> {
        match ser(&self.msk) {
            Ok(b) => Ok(b),
            Err(f) => self.fail(&["C13"], "msk-serialize-failed", f.message),
        }
    }

    /// After a call that returned Err: the MSK must equal its pre-call snapshot.
    fn msk_untouched(&self, before: &[u8], op: &str, cause: &str) -> Step {
        let old: MasterSecretKey = match de(before) {
            Ok(k) => k,
            Err(e) => return self.soft(&["C13"], "msk-snapshot-unreadable", e),
        };
        if old != self.msk {
            let now = ser(&self.msk).map(|b| b.len()).unwrap_or(0);
            return self.soft(
                &["C10"],
                &format!("msk-modified-by-failed-{op}:{cause}"),
                format!("{op} returned Err ({cause}) but the master key changed ({} -> {} bytes)", before.len(), now),
            );
        }
        Ok(())
    }

    fn usk_untouched(&self, before: &[u8], now: &UserSecretKey, op: &str, cause: &str) -> Step {
        let old: UserSecretKey = match de(before) {
            Ok(k) => k,
            Err(e) => return self.soft(&["C13"], "usk-snapshot-unreadable", e),
        };
        if &old != now {
            let n = ser(now).map(|b| b.len()).unwrap_or(0);
            return self.soft(
                if cause == "unknown-user" { &["C10", "C08", "C17"] } else { &["C10", "C08"] },
                &format!("usk-modified-by-failed-{op}:{cause}"),
                format!("{op} returned Err ({cause}) but the user key changed ({} -> {} bytes)", before.len(), n),
            );
        }
        Ok(())
    }

    // ------------------------------------------------------------------ op execution

    pub fn run(&mut self, ops: &[Op]) -> Step {
        for op in ops {
            self.exec(op)?;
        }
        // final checkpoint
        for i in 0..self.usks.len() {
            self.compare_usk(i)?;
        }
        self.check_matrix()
    }

    fn push_mpk(&mut self, mpk: MasterPublicKey) -> Step {
        let mm = self.m.mpk();
        self.compare_mpk(&mpk, &mm)?;
        self.mpks.push((mpk, mm));
        if self.mpks.len() > 12 {
            // keep indices stable for encapsulations: never drop, just cap growth by replacing the
            // second oldest with a tombstone is not needed at these history lengths
        }
        Ok(())
    }

    fn mismatch(&self, op: &str, expect: &Expect, got_ok: bool, err_text: &str, extra_ok: &[&str], extra_err: &[&str]) -> Step {
        match (expect, got_ok) {
            (Expect::Ok, true) | (Expect::Err(_), false) => Ok(()),
            (Expect::Ok, false) => {
                let mut props = vec!["C09"];
                props.extend_from_slice(extra_ok);
                self.fail(&props, &format!("expected-ok-got-err:{op}"), format!("{op}: contract says success, call returned Err({err_text})"))
            }
            (Expect::Err(cause), true) => {
                let mut props = vec!["C09"];
                props.extend_from_slice(extra_err);
                self.fail(&props, &format!("expected-err-got-ok:{op}:{cause}"), format!("{op}: contract says error ({cause}), call succeeded"))
            }
        }
    }


    fn structure_bytes(&self) -> Vec<u8> {
        ser(&self.msk.access_structure).unwrap_or_default()
    }

    /// [C10] a structure edit that returned Err must leave the (serialized) structure unchanged
    fn structure_untouched(&self, before: &[u8], op: &str) -> Step {
        let now = self.structure_bytes();
        if now != before {
            let same_object = match (de::<AccessStructure>(before), de::<AccessStructure>(&now)) {
                (Ok(a), Ok(b)) => a == b,
                _ => false,
            };
            if !same_object {
                return self.soft(&["C10"], &format!("structure-modified-by-failed-{op}"), format!("{op} returned Err but the access structure of the master key changed"));
            }
        }
        Ok(())
    }

    pub fn del_dim_named(&mut self, nm: &str) -> Step {
        let before = self.m.structure.clone();
        let sb = self.structure_bytes();
        let e = self.m.structure.del_dim(nm);
        let r = self.msk.access_structure.del_dimension(nm);
        if r.is_err() {
            self.structure_untouched(&sb, "del_dimension")?;
        }
        self.log(format!("del_dimension({nm}) -> {}", okerr(&r)));
        if e == Expect::Ok {
            self.events.insert("del-dim");
            self.events.insert("deleted-something");
            self.remember_dead(&before);
        } else {
            self.events.insert("err:unknown-dimension");
        }
        self.mismatch("del_dimension", &e, r.is_ok(), &errtxt(&r), &["C03"], &[])
    }

    pub fn add_dim_named(&mut self, nm: &str, hier: bool) -> Step {
        let sb = self.structure_bytes();
        let e = self.m.structure.add_dim(nm, hier);
        let r = if hier { self.msk.access_structure.add_hierarchy(nm.to_string()) } else { self.msk.access_structure.add_anarchy(nm.to_string()) };
        if r.is_err() {
            self.structure_untouched(&sb, "add_dimension")?;
        }
        self.log(format!("add_{}({nm}) -> {}", if hier { "hierarchy" } else { "anarchy" }, okerr(&r)));
        if matches!(e, Expect::Err(_)) {
            self.events.insert("err:duplicate-dimension");
        } else if self.events.contains("del-dim") {
            self.events.insert("add-dim-after-del-dim");
        }
        self.mismatch("add_dimension", &e, r.is_ok(), &errtxt(&r), &["C03"], &[])
    }

    pub fn add_attr_named(&mut self, d: &str, nm: &str, hybrid: bool, after_nm: Option<&str>) -> Step {
        let uid = self.next_uid;
        let sb = self.structure_bytes();
        let e = self.m.structure.add_attr(d, nm, hybrid, after_nm, uid);
        let r = self.msk.access_structure.add_attribute(qa(d, nm), hint(hybrid), after_nm);
        if r.is_err() {
            self.structure_untouched(&sb, "add_attribute")?;
        }
        self.log(format!("add_attribute({d}::{nm}, hybridized={hybrid}, after={after_nm:?}) -> {}", okerr(&r)));
        if let Expect::Err(c) = &e {
            self.events.insert(match *c {
                "unknown-dimension" => "err:unknown-dimension",
                "duplicate-attribute" => "err:duplicate-attribute",
                "bad-after" => "err:bad-after",
                _ => "err:other",
            });
        }
        self.mismatch("add_attribute", &e, r.is_ok(), &errtxt(&r), &["C03"], &[])?;
        if e == Expect::Ok {
            self.next_uid += 1;
            if self.events.contains("deleted-something") {
                self.events.insert("add-after-delete");
            }
            if self.events.contains("renamed") {
                self.events.insert("add-after-rename");
            }
            if after_nm.is_some() {
                self.events.insert("add-with-after");
            }
            if !self.usks.is_empty() {
                self.events.insert("attr-created-after-keygen");
            }
            self.learn_attr_id(d, nm, uid)?;
            let ms = self.m.structure.clone();
            let ws = match ser(&self.msk.access_structure).ok().and_then(|b| WStructure::decode(&b).ok()) {
                Some(w) => w,
                None => return self.fail(&["C13"], "codec-cannot-decode-structure", "after add".into()),
            };
            self.compare_structure(&ws, &ms, "structure")?;
        }
        Ok(())
    }

    pub fn exec(&mut self, op: &Op) -> Step {
        self.count(op.kind());
        match op {
            Op::AddDim { name, hier } => {
                let nm = DIM_NAMES[*name as usize % DIM_NAMES.len()].to_string();
                self.add_dim_named(&nm, *hier)
            }
            Op::DelDim { dim, bad } => {
                let nm = self.dim_name(*dim, *bad);
                self.del_dim_named(&nm)
            }
            Op::AddAttr { dim, name, hybrid, after, bad } => {
                let d = self.dim_name(*dim, *bad % 7 == 1);
                let base = ATTR_NAMES[*name as usize % ATTR_NAMES.len()].to_string();
                // duplicate names are generated on purpose when bad%7==2
                let nm = if *bad % 7 == 2 { self.attr_name(&d, *name as u16 * 4096, false) } else { base };
                let after_nm: Option<String> = match after {
                    None => None,
                    Some(sel) => Some(if *bad % 7 == 3 { "no-such-after".to_string() } else { self.attr_name(&d, *sel, false) }),
                };
                self.add_attr_named(&d, &nm, *hybrid, after_nm.as_deref())
            }
            Op::DelAttr { dim, attr, bad } => {
                let d = self.dim_name(*dim, false);
                let a = self.attr_name(&d, *attr, *bad);
                let before = self.m.structure.clone();
                let sb = self.structure_bytes();
                let e = self.m.structure.del_attr(&d, &a);
                let r = self.msk.access_structure.del_attribute(&qa(&d, &a));
                if r.is_err() {
                    self.structure_untouched(&sb, "del_attribute")?;
                }
                self.log(format!("del_attribute({d}::{a}) -> {}", okerr(&r)));
                if e == Expect::Ok {
                    self.events.insert("del-attr");
                    self.events.insert("deleted-something");
                    self.remember_dead(&before);
                } else {
                    self.events.insert("err:unknown-attribute");
                }
                self.mismatch("del_attribute", &e, r.is_ok(), &errtxt(&r), &["C03"], &[])
            }
            Op::Rename { dim, attr, new, bad } => {
                let d = self.dim_name(*dim, false);
                let a = self.attr_name(&d, *attr, *bad);
                let new_nm = format!("{}'", ATTR_NAMES[*new as usize % ATTR_NAMES.len()]);
                let sb = self.structure_bytes();
                let e = self.m.structure.rename(&d, &a, &new_nm);
                let r = self.msk.access_structure.rename_attribute(&qa(&d, &a), new_nm.clone());
                if r.is_err() {
                    self.structure_untouched(&sb, "rename_attribute")?;
                }
                self.log(format!("rename_attribute({d}::{a} -> {new_nm}) -> {}", okerr(&r)));
                if e == Expect::Ok {
                    self.events.insert("renamed");
                    if !self.usks.is_empty() {
                        self.events.insert("renamed-after-keygen");
                    }
                } else {
                    self.events.insert("err:rename");
                }
                self.mismatch("rename_attribute", &e, r.is_ok(), &errtxt(&r), &["C03"], &[])
            }
            Op::Disable { dim, attr, bad } => {
                let d = self.dim_name(*dim, false);
                let a = self.attr_name(&d, *attr, *bad);
                let sb = self.structure_bytes();
                let e = self.m.structure.disable(&d, &a);
                let r = self.msk.access_structure.disable_attribute(&qa(&d, &a));
                if r.is_err() {
                    self.structure_untouched(&sb, "disable_attribute")?;
                }
                self.log(format!("disable_attribute({d}::{a}) -> {}", okerr(&r)));
                if e == Expect::Ok {
                    self.events.insert("disabled");
                }
                self.mismatch("disable_attribute", &e, r.is_ok(), &errtxt(&r), &["C06"], &[])
            }
            Op::Update => {
                let before = self.snapshot_msk()?;
                let mut m2 = self.m.clone();
                let (e, created) = m2.update(&mut self.next_rev);
                let r = self.cc.update_msk(&mut self.msk);
                self.log(format!("update_msk() -> {}", okerr(&r)));
                if r.is_err() {
                    self.msk_untouched(&before, "update_msk", "any-error")?;
                }
                self.mismatch("update_msk", &e, r.is_ok(), &errtxt(&r), &["C03", "C05", "C06"], &["C06"])?;
                match r {
                    Ok(mpk) => {
                        let dropped = self.m.rights.len() + created.len() - m2.rights.len();
                        if dropped > 0 {
                            self.events.insert("update-dropped-rights");
                        }
                        if self.events.contains("disabled") {
                            self.events.insert("update-after-disable");
                            if self.events.contains("disable-effective") {
                                self.events.insert("mpk-after-disable:update");
                            }
                            self.events.insert("disable-effective");
                        }
                        self.m = m2;
                        self.compare_msk(&created)?;
                        self.push_mpk(mpk)?;
                        self.probe_disabled()?;
                    }
                    Err(_) => {
                        self.events.insert("err:born-disabled");
                        self.events.insert("late-error");
                        self.msk_untouched(&before, "update_msk", "born-disabled")?;
                    }
                }
                Ok(())
            }
            Op::Rekey { ap, bad } => {
                let (rp, dnf, note) = self.resolve(ap, &self.m.structure.clone(), *bad, false);
                if MStructure::ill_formed(&dnf) {
                    return Ok(());
                }
                let pol = self.real_policy(&rp)?;
                let before = self.snapshot_msk()?;
                let mut m2 = self.m.clone();
                let (e, created) = m2.rekey(&dnf, &mut self.next_rev);
                let r = self.cc.rekey(&mut self.msk, &pol);
                self.log(format!("rekey({}) -> {}", dnf_str(&dnf), okerr(&r)));
                let _ = note;
                if r.is_err() {
                    self.msk_untouched(&before, "rekey", "any-error")?;
                }
                self.mismatch("rekey", &e, r.is_ok(), &errtxt(&r), &["C04"], &[])?;
                match r {
                    Ok(mpk) => {
                        self.events.insert("rekeyed");
                        if self.events.contains("disable-effective") {
                            self.events.insert("mpk-after-disable:rekey");
                        }
                        // partial rotation: some user key has only part of its rights rotated
                        for u in &self.usks {
                            let hit = u.m.rights.keys().filter(|r| created.iter().any(|(c, _)| c == *r)).count();
                            if hit > 0 && hit < u.m.rights.len() {
                                self.events.insert("partial-rotation");
                            }
                        }
                        self.m = m2;
                        self.compare_msk(&created)?;
                        self.push_mpk(mpk)?;
                        self.probe_disabled()?;
                    }
                    Err(_) => {
                        if let Expect::Err(c) = &e {
                            if *c == "rekey-unheld" {
                                self.events.insert("err:rekey-unheld");
                                self.events.insert("late-error");
                            } else {
                                self.events.insert("err:unknown-name-in-policy");
                            }
                            let c = *c;
                            self.msk_untouched(&before, "rekey", c)?;
                        }
                    }
                }
                Ok(())
            }
            Op::Prune { ap, bad } => {
                let (rp, dnf, _note) = self.resolve(ap, &self.m.structure.clone(), *bad, false);
                if MStructure::ill_formed(&dnf) {
                    return Ok(());
                }
                let pol = self.real_policy(&rp)?;
                let before = self.snapshot_msk()?;
                let mut m2 = self.m.clone();
                let (e, removed) = m2.prune(&dnf);
                let r = self.cc.prune_master_secret_key(&mut self.msk, &pol);
                self.log(format!("prune({}) -> {}", dnf_str(&dnf), okerr(&r)));
                if r.is_err() {
                    self.msk_untouched(&before, "prune", "any-error")?;
                }
                self.mismatch("prune", &e, r.is_ok(), &errtxt(&r), &["C05"], &[])?;
                match r {
                    Ok(mpk) => {
                        if removed > 0 {
                            self.events.insert("pruned-revisions");
                            // did some user key hold a removed revision?
                            for u in &self.usks {
                                for (r, revs) in &u.m.rights {
                                    if let (Some(old), Some(new)) = (self.m.rights.get(r), m2.rights.get(r)) {
                                        if old.len() > new.len() && revs.iter().any(|x| !new.iter().any(|m| m.id == *x)) {
                                            self.events.insert("user-holds-pruned-revision");
                                        }
                                    }
                                }
                            }
                        }
                        if self.events.contains("disable-effective") {
                            self.events.insert("mpk-after-disable:prune");
                        }
                        self.m = m2;
                        self.compare_msk(&[])?;
                        self.push_mpk(mpk)?;
                        self.probe_disabled()?;
                    }
                    Err(_) => {
                        self.events.insert("err:unknown-name-in-policy");
                        self.msk_untouched(&before, "prune", "unknown-name")?;
                    }
                }
                Ok(())
            }
            Op::KeyGen { ap, bad } => {
                let (rp, dnf, _note) = self.resolve(ap, &self.m.structure.clone(), *bad, false);
                if MStructure::ill_formed(&dnf) {
                    return Ok(());
                }
                let pol = self.real_policy(&rp)?;
                let before = self.snapshot_msk()?;
                let mut m2 = self.m.clone();
                let id = self.next_user;
                let mr = m2.keygen(&dnf, id, dnf_str(&dnf));
                let r = self.cc.generate_user_secret_key(&mut self.msk, &pol);
                self.log(format!("generate_user_secret_key({}) -> {}", dnf_str(&dnf), okerr(&r)));
                let e = match &mr {
                    Ok(_) => Expect::Ok,
                    Err(c) => Expect::Err(c),
                };
                if r.is_err() {
                    self.msk_untouched(&before, "keygen", "any-error")?;
                }
                self.mismatch("keygen", &e, r.is_ok(), &errtxt(&r), &["C03", "C01"], &[])?;
                match (r, mr) {
                    (Ok(key), Ok(mu)) => {
                        self.next_user += 1;
                        self.m = m2;
                        if self.usks.len() >= self.max_usks {
                            self.usks.remove(0);
                        }
                        self.usks.push(RealUsk { key, m: mu, id_bytes: vec![] });
                        let idx = self.usks.len() - 1;
                        self.compare_usk(idx)?;
                        self.compare_msk(&[])?;
                        self.check_user_registered(idx)?;
                    }
                    (Err(_), Err(c)) => {
                        if c == "keygen-unheld" {
                            self.events.insert("err:keygen-unheld");
                            self.events.insert("late-error");
                        } else {
                            self.events.insert("err:unknown-name-in-policy");
                        }
                        self.msk_untouched(&before, "keygen", c)?;
                    }
                    _ => {}
                }
                Ok(())
            }
            Op::Refresh { usk, keep } => {
                if self.usks.is_empty() {
                    return Ok(());
                }
                let i = pick(*usk, self.usks.len());
                let before_msk = self.snapshot_msk()?;
                let before_usk = match ser(&self.usks[i].key) {
                    Ok(b) => b,
                    Err(f) => return self.fail(&["C13"], "usk-serialize-failed", f.message),
                };
                let mut mu = self.usks[i].m.clone();
                // classify the situation before the call
                let lost_right = mu.rights.keys().any(|r| !self.m.rights.contains_key(r));
                let holds_removed_rev = mu.rights.iter().any(|(r, revs)| match self.m.rights.get(r) {
                    None => true,
                    Some(chain) => revs.iter().any(|x| !chain.iter().any(|m| m.id == *x)),
                });
                let behind = mu.rights.iter().any(|(r, revs)| self.m.rights.get(r).map(|c| c[0].id != revs[0]).unwrap_or(false));
                let e = self.m.refresh(&mut mu, *keep);
                let r = self.cc.refresh_usk(&mut self.msk, &mut self.usks[i].key, *keep);
                self.log(format!("refresh_usk(user key #{i} '{}', keep_old_secrets={keep}) -> {}", mu.policy, okerr(&r)));
                if lost_right {
                    self.events.insert(if *keep { "refresh-after-delete:keep" } else { "refresh-after-delete:nokeep" });
                }
                if holds_removed_rev {
                    self.events.insert("refresh-of-key-holding-removed-revision");
                }
                if behind {
                    self.events.insert(if *keep { "refresh-behind:keep" } else { "refresh-behind:nokeep" });
                }
                if r.is_err() {
                    self.msk_untouched(&before_msk, "refresh_usk", "any-error")?;
                    let k = self.usks[i].key.clone();
                    self.usk_untouched(&before_usk, &k, "refresh_usk", "any-error")?;
                }
                self.mismatch("refresh_usk", &e, r.is_ok(), &errtxt(&r), &["C04", "C05", "C06"], &["C08", "C17"])?;
                match r {
                    Ok(()) => {
                        // chains of different length inside one key
                        let lens: BTreeSet<usize> = mu.rights.values().map(|v| v.len()).collect();
                        if lens.len() > 1 {
                            self.events.insert("key-with-uneven-chains");
                        }
                        self.usks[i].m = mu;
                        self.compare_usk(i)?;
                        self.compare_msk(&[])?;
                        self.check_user_registered(i)?;
                    }
                    Err(_) => {
                        self.msk_untouched(&before_msk, "refresh_usk", "unknown-user")?;
                        let k = self.usks[i].key.clone();
                        self.usk_untouched(&before_usk, &k, "refresh_usk", "unknown-user")?;
                    }
                }
                Ok(())
            }
            Op::Encaps { mpk, ap, bad } => {
                let mi = self.mpk_index(*mpk);
                let st = self.mpks[mi].1.structure.clone();
                let (rp, dnf, note) = self.resolve(ap, &st, *bad, true);
                if note != "two-attrs-one-dim" && MStructure::ill_formed(&dnf) {
                    return Ok(());
                }
                let pol = if note == "two-attrs-one-dim" { rp.to_ast() } else { self.real_policy(&rp)? };
                self.do_encaps(mi, &dnf, &pol)
            }
            Op::EncapsFor { mpk, usk, variant } => {
                if self.usks.is_empty() {
                    return self.exec(&Op::Encaps { mpk: *mpk, ap: PolicySpec { broadcast: true, groups: vec![], shape: 0, stars: 0 }, bad: 0 });
                }
                let mi = self.mpk_index(*mpk);
                let ui = pick(*usk, self.usks.len());
                let st = self.mpks[mi].1.structure.clone();
                // pick one right of the user key that the MPK's structure can name, and vary it
                let rights: Vec<RightM> = self.usks[ui].m.rights.keys().cloned().collect();
                if rights.is_empty() {
                    return Ok(());
                }
                let r = &rights[(*variant as usize * 7 + 3) % rights.len()];
                let mut conj: Conj = vec![];
                for u in r {
                    if let Some((d, a)) = st.attr_by_uid(*u) {
                        conj.push((d.name.clone(), a.name.clone()));
                    }
                }
                match variant % 4 {
                    1 => {
                        // step outside: replace one attribute by the next higher / a sibling
                        if let Some((d, a)) = conj.first().cloned() {
                            if let Some(dim) = st.dim(&d) {
                                if let Some(pos) = dim.attrs.iter().position(|x| x.name == a) {
                                    let other = &dim.attrs[(pos + 1) % dim.attrs.len()];
                                    conj[0] = (d, other.name.clone());
                                }
                            }
                        }
                    }
                    2 => {
                        // add an attribute of a dimension the right does not mention
                        if let Some(dim) = st.dims.iter().find(|dd| !conj.iter().any(|(d, _)| d == &dd.name) && !dd.attrs.is_empty()) {
                            let a = &dim.attrs[*variant as usize / 4 % dim.attrs.len()];
                            conj.push((dim.name.clone(), a.name.clone()));
                        }
                    }
                    _ => {}
                }
                let dnf = vec![conj];
                let rp = RPolicy::from_dnf(&dnf, *variant as u64 * 0x9e37 + 1);
                let pol = self.real_policy(&rp)?;
                self.do_encaps(mi, &dnf, &pol)
            }
            Op::EncapsWide { mpk, dim } => {
                let mi = self.mpk_index(*mpk);
                let st = self.mpks[mi].1.structure.clone();
                let dims: Vec<&MDim> = st.dims.iter().filter(|d| !d.attrs.is_empty()).collect();
                if dims.is_empty() {
                    return Ok(());
                }
                let d = dims[pick(*dim, dims.len())];
                let dnf: Vec<Conj> = d.attrs.iter().map(|a| vec![(d.name.clone(), a.name.clone())]).collect();
                let rp = RPolicy { broadcast: false, groups: vec![vec![(d.name.clone(), d.attrs.iter().map(|a| a.name.clone()).collect())]], shape: *dim as u64 };
                let pol = self.real_policy(&rp)?;
                self.events.insert("wide-encapsulation");
                self.do_encaps(mi, &dnf, &pol)
            }
            Op::Check => {
                for i in 0..self.usks.len() {
                    self.compare_usk(i)?;
                }
                self.check_matrix()
            }
            Op::RoundTrip { what, sel } => self.roundtrip(*what, *sel),
            Op::Recaps { enc, mpk } => self.recaps(*enc, *mpk),
            Op::ProbeStale { back, usk, keep } => self.probe_stale(*back, *usk, *keep),
            Op::ProbeForged { usk, kind, keep } => self.probe_forged(*usk, *kind, *keep),
        }
    }

    fn mpk_index(&self, sel: u16) -> usize {
        let n = self.mpks.len();
        if sel < 36000 {
            n - 1
        } else {
            pick(sel, n)
        }
    }

    fn do_encaps(&mut self, mi: usize, dnf: &[Conj], pol: &AccessPolicy) -> Step {
        let me = self.mpks[mi].1.encaps(dnf);
        let r = self.user_cc.encaps(&self.mpks[mi].0, pol);
        let latest = mi == self.mpks.len() - 1;
        self.log(format!("encaps(public key #{mi}{}, {}) -> {}", if latest { " (latest)" } else { " (old)" }, dnf_str(dnf), okerr(&r)));
        let e = match &me {
            Ok(_) => Expect::Ok,
            Err(c) => Expect::Err(c),
        };
        if let Expect::Err(c) = &e {
            self.events.insert(match *c {
                "enc-disabled" => "err:enc-disabled",
                "enc-not-yet-created" => "err:enc-not-yet-created",
                "enc-two-attrs-one-dim" => "err:enc-two-attrs-one-dim",
                _ => "err:unknown-name-in-policy",
            });
        }
        self.mismatch("encaps", &e, r.is_ok(), &errtxt(&r), &["C01", "C03", "C06", "C11"], &["C06"])?;
        if let (Ok((secret, enc)), Ok((targets, hybrid))) = (r, me) {
            // flavour / size [C11]
            let bytes = match ser(&enc) {
                Ok(b) => b,
                Err(f) => return self.fail(&["C13"], "xenc-serialize-failed", f.message),
            };
            let wx = match WXEnc::decode(&bytes) {
                Ok(w) => w,
                Err(e) => return self.fail(&["C13"], "codec-cannot-decode-xenc", e),
            };
            self.wire_checks += 1;
            if wx.encode() != bytes {
                return self.soft(&["C13"], "codec-reencode-differs-xenc", "re-encoding the decoded encapsulation differs".into());
            }
            if wx.hyb != hybrid {
                return self.soft(&["C11"], "xenc-flavour", format!("encapsulation for {} is hybridized={}, but {} of its targets are hybridized rights", dnf_str(dnf), wx.hyb, if hybrid { "all" } else { "not all" }));
            }
            if wx.encs.len() != targets.len() {
                return self.soft(&["C11", "C01", "C13"], "xenc-target-count", format!("encapsulation for {} carries {} components, {} targets expected", dnf_str(dnf), wx.encs.len(), targets.len()));
            }
            if bytes.len() != WXEnc::formula_len(self.n_tracers, hybrid, targets.len()) {
                return self.soft(&["C11", "C13"], "xenc-size-formula", format!("encapsulation size {} differs from the documented formula {}", bytes.len(), WXEnc::formula_len(self.n_tracers, hybrid, targets.len())));
            }
            if enc.count() != targets.len() {
                return self.soft(&["C13", "C18"], "xenc-count-accessor", "XEnc::count() differs from the number of targets".into());
            }
            // [C11] ML-KEM ciphertexts are bound into the tag: altering one must make authorized keys fail
            if hybrid && self.focus == "C11" {
                let me = MEnc { targets: targets.clone(), hybrid, policy: String::new(), mpk_index: mi };
                if let Some(ui) = self.usks.iter().position(|u| opens(&u.m, &me)) {
                    let mut w2 = wx.clone();
                    let k = (bytes.len() * 7) % w2.encs.len();
                    let pos = (bytes[3] as usize * 13) % wire::CT;
                    w2.encs[k].0[pos] ^= 0x10;
                    if let Ok(m) = de::<XEnc>(&w2.encode()) {
                        self.count("mlkem-ct-binding-probe");
                        if let Ok(Some(_)) = self.user_cc.decaps(&self.usks[ui].key, &m) {
                            return self.fail(&["C11", "C07"], "mlkem-ciphertext-not-bound", format!("encapsulation for {}: flipping a bit of an ML-KEM ciphertext still lets an authorized key obtain a secret", dnf_str(dnf)));
                        }
                        self.events.insert("mlkem-binding-probed");
                    }
                    // [C11] the ML-KEM layer must contribute: the same key with every ML-KEM
                    // decapsulation key replaced by a valid but unrelated one must fail on an
                    // encapsulation whose targets are all hybridized
                    if let Some(k2) = ser(&self.usks[ui].key).ok().and_then(|b| WUsk::decode(&b).ok()).and_then(|mut wu| {
                        let fdk = foreign_dk();
                        let mut n = 0;
                        for (_, chain) in wu.rights.iter_mut() {
                            for sct in chain.iter_mut().filter(|x| x.hyb) {
                                sct.dk = fdk.clone();
                                n += 1;
                            }
                        }
                        if n == 0 || fdk.is_empty() {
                            None
                        } else {
                            de::<UserSecretKey>(&wu.encode()).ok()
                        }
                    }) {
                        self.count("mlkem-dk-needed-probe");
                        if let Ok(Some(_)) = self.user_cc.decaps(&k2, &enc) {
                            return self.fail(&["C11"], "mlkem-key-not-needed", format!("encapsulation for {} (all targets hybridized): an authorized key whose ML-KEM decapsulation keys were all replaced by an unrelated key still obtains a secret", dnf_str(dnf)));
                        }
                        self.events.insert("mlkem-dk-needed-probed");
                    }
                }
            }
            if hybrid {
                self.events.insert("hybridized-enc");
            }
            if targets.len() > 1 {
                let flavours: BTreeSet<bool> = targets.iter().filter_map(|(r, rev)| self.m.rights.get(r).and_then(|c| c.iter().find(|m| m.id == *rev)).map(|m| m.hybrid)).collect();
                if flavours.len() > 1 {
                    self.events.insert("multi-target-mixed-flavours");
                }
            }
            if self.events.contains("rekeyed") && targets.iter().any(|(r, _)| self.m.rights.get(r).map(|c| c.len() > 1 && c[0].hybrid).unwrap_or(false)) {
                self.events.insert("hybrid-flavour-observed-after-rekey");
            }
            // feature events
            if targets.len() > 1 {
                self.events.insert("multi-target-enc");
            }
            if !latest {
                self.events.insert("enc-under-old-mpk");
            }
            for (r, rev) in &targets {
                if let Some(chain) = self.m.rights.get(r) {
                    if chain[0].id != *rev {
                        self.events.insert("enc-under-non-newest-revision");
                    }
                    if !chain.iter().any(|m| m.id == *rev) {
                        self.events.insert("enc-under-removed-revision");
                    }
                } else {
                    self.events.insert("enc-under-removed-revision");
                }
            }
            if self.events.contains("attr-created-after-keygen") || self.events.contains("renamed-after-keygen") {
                self.events.insert("enc-after-edit-with-keys");
            }
            if self.encs.len() >= self.max_encs {
                self.encs.remove(0);
            }
            self.encs.push(RealEnc {
                enc,
                secret: secret.to_vec(),
                m: MEnc { targets, hybrid, policy: dnf_str(dnf), mpk_index: mi },
                from_recaps: false,
            });
        }
        Ok(())
    }

    /// [C06] After every op that yields an MPK: encapsulating for a disabled attribute must fail
    /// (alone and conjoined), and enabled attributes must still work.
    fn probe_disabled(&mut self) -> Step {
        let mi = self.mpks.len() - 1;
        let st = self.mpks[mi].1.structure.clone();
        let mut probes: Vec<Conj> = vec![];
        for d in &st.dims {
            for a in &d.attrs {
                if a.disabled {
                    probes.push(vec![(d.name.clone(), a.name.clone())]);
                    if let Some(od) = st.dims.iter().find(|x| x.name != d.name && x.attrs.iter().any(|y| !y.disabled)) {
                        let oa = od.attrs.iter().find(|y| !y.disabled).unwrap();
                        probes.push(vec![(d.name.clone(), a.name.clone()), (od.name.clone(), oa.name.clone())]);
                    }
                }
            }
        }
        for conj in probes.into_iter().take(6) {
            let dnf = vec![conj];
            let me = self.mpks[mi].1.encaps(&dnf);
            let pol = RPolicy::from_dnf(&dnf, 0).to_ast();
            let r = self.user_cc.encaps(&self.mpks[mi].0, &pol);
            self.count("disabled-probe");
            match (&me, &r) {
                (Err(_), Ok(_)) => {
                    return self.fail(&["C06", "C09"], "encaps-for-disabled-attribute-succeeds", format!("public key #{mi} allows encapsulating for {} although the attribute is disabled and the master key was updated", dnf_str(&dnf)));
                }
                (Ok(_), Err(e)) => {
                    // disabled in the structure but not yet effective (no update since): model says Ok
                    return self.fail(&["C09"], "expected-ok-got-err:encaps-probe", format!("probe {}: {}", dnf_str(&dnf), short_err(e)));
                }
                (Err(_), Err(_)) => {
                    self.events.insert("disabled-probe-refused");
                }
                _ => {}
            }
        }
        Ok(())
    }

    /// [C17] the key's id is registered in the MSK and satisfies the tracing relation
    fn check_user_registered(&mut self, idx: usize) -> Step {
        let bytes = self.snapshot_msk()?;
        let Ok(wm) = WMsk::decode(&bytes) else { return Ok(()) };
        let id = self.usks[idx].id_bytes.clone();
        if !wm.users.iter().any(|u| *u == id) {
            return self.soft(&["C17"], "issued-id-not-registered", format!("user key #{idx}: its identifier is not in the master key's user set"));
        }
        // all registered ids distinct
        let set: BTreeSet<&Vec<Vec<u8>>> = wm.users.iter().collect();
        if set.len() != wm.users.len() {
            return self.soft(&["C17", "C16"], "duplicate-user-id", "two registered user ids are equal".into());
        }
        if let Err(e) = crate::props::c17::tracing_relation(&wm, &id) {
            return self.soft(&["C17"], "tracing-relation-violated", format!("user key #{idx}: {e}"));
        }
        // tracing points embedded in the user key and in the public keys = public tracers of the master key
        let pts: Vec<Vec<u8>> = wm.tracers.iter().map(|(_, p)| p.clone()).collect();
        if let Ok(b) = ser(&self.usks[idx].key) {
            if let Ok(wu) = WUsk::decode(&b) {
                if wu.ps != pts {
                    return self.soft(&["C17"], "usk-tracing-points-differ", format!("user key #{idx}: embedded tracing points differ from the master key's public tracers"));
                }
            }
        }
        let last = self.mpks.len() - 1;
        if let Ok(b) = ser(&self.mpks[last].0) {
            if let Ok(wp) = WMpk::decode(&b) {
                if wp.tpk != pts {
                    return self.soft(&["C17"], "mpk-tracing-points-differ", "latest public key: tracing points differ from the master key's public tracers".into());
                }
            }
        }
        self.count("tracing-relation-checked");
        if self.usks[idx].m.refreshed > 0 || self.events.contains("roundtrip") {
            self.events.insert("tracing-checked-after-refresh-or-roundtrip");
        }
        Ok(())
    }

    fn roundtrip(&mut self, what: u8, sel: u16) -> Step {
        match what % 4 {
            0 => {
                let b = match ser_strict(&self.msk, "MasterSecretKey") {
                    Ok(b) => b,
                    Err(f) => return self.fail(&["C13"], &f.signature.clone(), f.message),
                };
                match de::<MasterSecretKey>(&b) {
                    Ok(k) => {
                        if k != self.msk {
                            self.soft(&["C13"], "roundtrip-not-equal:msk", "deserialize(serialize(msk)) != msk".into())?;
                        }
                        self.msk = k;
                        self.log("round-trip MSK".into());
                        // re-derive the public key from the deserialized master key [C06]
                        match self.msk.mpk() {
                            Ok(mpk) => {
                                if self.events.contains("disable-effective") {
                                    self.events.insert("mpk-after-disable:roundtrip");
                                }
                                self.push_mpk(mpk)?;
                                self.probe_disabled()?;
                            }
                            Err(e) => return self.fail(&["C13", "C09"], "mpk-derivation-failed", short_err(&e)),
                        }
                    }
                    Err(e) => return self.fail(&["C13"], "roundtrip-deserialize-failed:msk", e),
                }
            }
            1 => {
                let i = self.mpks.len() - 1;
                let b = match ser_strict(&self.mpks[i].0, "MasterPublicKey") {
                    Ok(b) => b,
                    Err(f) => return self.fail(&["C13"], &f.signature.clone(), f.message),
                };
                match de::<MasterPublicKey>(&b) {
                    Ok(k) => {
                        if k != self.mpks[i].0 {
                            self.soft(&["C13"], "roundtrip-not-equal:mpk", "deserialize(serialize(mpk)) != mpk".into())?;
                        }
                        self.mpks[i].0 = k;
                        self.log(format!("round-trip public key #{i}"));
                    }
                    Err(e) => return self.fail(&["C13"], "roundtrip-deserialize-failed:mpk", e),
                }
            }
            2 => {
                if self.usks.is_empty() {
                    return Ok(());
                }
                let i = pick(sel, self.usks.len());
                let b = match ser_strict(&self.usks[i].key, "UserSecretKey") {
                    Ok(b) => b,
                    Err(f) => return self.fail(&["C13"], &f.signature.clone(), f.message),
                };
                match de::<UserSecretKey>(&b) {
                    Ok(k) => {
                        if k != self.usks[i].key {
                            self.soft(&["C13"], "roundtrip-not-equal:usk", "deserialize(serialize(usk)) != usk".into())?;
                        }
                        self.usks[i].key = k;
                        self.log(format!("round-trip user key #{i}"));
                        self.events.insert("roundtrip");
                        self.compare_usk(i)?;
                        self.check_user_registered(i)?;
                    }
                    Err(e) => return self.fail(&["C13"], "roundtrip-deserialize-failed:usk", e),
                }
            }
            _ => {
                if self.encs.is_empty() {
                    return Ok(());
                }
                let i = pick(sel, self.encs.len());
                let b = match ser_strict(&self.encs[i].enc, "XEnc") {
                    Ok(b) => b,
                    Err(f) => return self.fail(&["C13"], &f.signature.clone(), f.message),
                };
                match de::<XEnc>(&b) {
                    Ok(k) => {
                        if k != self.encs[i].enc {
                            self.soft(&["C13"], "roundtrip-not-equal:xenc", "deserialize(serialize(xenc)) != xenc".into())?;
                        }
                        self.encs[i].enc = k;
                        self.log(format!("round-trip encapsulation #{i}"));
                    }
                    Err(e) => return self.fail(&["C13"], "roundtrip-deserialize-failed:xenc", e),
                }
            }
        }
        self.events.insert("roundtrip");
        if self.injected_roundtrip_at.is_none() {
            self.injected_roundtrip_at = Some(self.asserted_outcomes);
        }
        Ok(())
    }

    /// [C18]
    fn recaps(&mut self, enc: u16, mpk: u16) -> Step {
        if self.encs.is_empty() {
            return Ok(());
        }
        let ei = pick(enc, self.encs.len());
        let mi = self.mpk_index(mpk);
        let orig = self.encs[ei].m.clone();
        // open = targets whose (right, rev) the MSK still holds as an *activated* secret (the master key
        // only opens with activated secrets); pub = rights the given MPK publishes
        let open: BTreeSet<RightM> = orig
            .targets
            .iter()
            .filter(|(r, rev)| self.m.rights.get(r).map(|c| c.iter().any(|m| m.id == *rev && m.activated)).unwrap_or(false))
            .map(|(r, _)| r.clone())
            .collect();
        let mm = self.mpks[mi].1.clone();
        let publishable: BTreeSet<(RightM, RevId)> = open.iter().filter_map(|r| mm.keys.get(r).map(|(rev, _)| (r.clone(), *rev))).collect();
        let changed = orig.targets.iter().any(|(r, rev)| self.m.rights.get(r).map(|c| c[0].id != *rev || !c[0].activated).unwrap_or(true));
        let r = self.cc.recaps(&self.msk, &self.mpks[mi].0, &self.encs[ei].enc);
        self.log(format!(
            "recaps(encapsulation #{ei} '{}' [{} targets, {} still open, {} publishable], public key #{mi}) -> {}",
            orig.policy,
            orig.targets.len(),
            open.len(),
            publishable.len(),
            okerr(&r)
        ));
        self.count("recaps");
        if orig.targets.len() > 1 && changed {
            self.events.insert("recaps-multi-target-after-change");
        }
        if self.encs[ei].from_recaps {
            self.events.insert("recaps-of-recaps");
        }
        if publishable.is_empty() {
            self.events.insert("recaps-none-recoverable");
            if let Ok((_s, e2)) = r {
                return self.fail(&["C18", "C09"], "recaps-succeeds-with-nothing-recoverable", format!("recaps of '{}' returned Ok (an encapsulation with {} targets) although none of the original rights can be opened and published: it must fail", orig.policy, e2.count()));
            }
            return Ok(());
        }
        match r {
            Err(e) => self.fail(&["C18", "C09"], "recaps-fails-although-rights-recoverable", format!("recaps of '{}' failed ({}) although {} of its {} original rights can still be opened and published", orig.policy, short_err(&e), publishable.len(), orig.targets.len())),
            Ok((secret, enc2)) => {
                if secret.to_vec() == self.encs[ei].secret {
                    return self.fail(&["C18", "C16"], "recaps-reuses-secret", "re-encapsulation returned the original secret".into());
                }
                if let Ok(b2) = ser(&enc2) {
                    let tag = b2[..16].to_vec();
                    if self.encs.iter().any(|e| ser(&e.enc).map(|b| b[..16] == tag[..]).unwrap_or(false)) {
                        return self.fail(&["C18", "C16"], "recaps-repeats-an-earlier-encapsulation", "re-encapsulation produced the tag of an encapsulation produced earlier in this history (no fresh randomness)".into());
                    }
                }
                if self.encs.iter().any(|e| e.secret == secret.to_vec()) {
                    return self.fail(&["C18", "C16"], "recaps-repeats-an-earlier-secret", "re-encapsulation returned a secret already returned earlier in this history".into());
                }
                if enc2 == self.encs[ei].enc {
                    return self.fail(&["C18", "C16"], "recaps-reuses-encapsulation", "re-encapsulation returned the original encapsulation".into());
                }
                if enc2.count() != publishable.len() {
                    return self.fail(&["C18"], "recaps-target-count", format!("re-encapsulation of '{}' targets {} rights, expected exactly the {} recoverable+publishable ones", orig.policy, enc2.count(), publishable.len()));
                }
                let hybrid = publishable.iter().all(|(r, _)| mm.keys[r].1);
                // [C11] the flavour of a re-encapsulation follows its own targets, not the original's
                if let Ok(w2) = ser(&enc2).map_err(|f| f.message).and_then(|b| WXEnc::decode(&b)) {
                    self.wire_checks += 1;
                    if w2.hyb != hybrid {
                        return self.soft(&["C11", "C18"], "recaps-flavour", format!("re-encapsulation of '{}' is hybridized={}, but {} of its {} targets are hybridized rights", orig.policy, w2.hyb, if hybrid { "all" } else { "not all" }, publishable.len()));
                    }
                    if hybrid {
                        self.events.insert("hybridized-recaps");
                    }
                }
                if self.encs.len() >= self.max_encs {
                    self.encs.remove(0);
                }
                self.encs.push(RealEnc {
                    enc: enc2,
                    secret: secret.to_vec(),
                    m: MEnc { targets: publishable, hybrid, policy: format!("recaps({})", orig.policy), mpk_index: mi },
                    from_recaps: true,
                });
                // verdicts for the new encapsulation at once
                let ni = self.encs.len() - 1;
                for ui in 0..self.usks.len() {
                    self.check_pair(ui, ni)?;
                }
                Ok(())
            }
        }
    }

    pub fn remember_msk(&mut self) {
        if let Ok(b) = ser(&self.msk) {
            self.msk_history.push((b, self.m.clone()));
            if self.msk_history.len() > 6 {
                self.msk_history.remove(0);
            }
        }
    }

    /// [C10, C17] Refresh a clone of a user key with an older snapshot of the master key.
    fn probe_stale(&mut self, back: u8, usk: u16, keep: bool) -> Step {
        if self.usks.is_empty() || self.msk_history.is_empty() {
            self.remember_msk();
            return Ok(());
        }
        let hi = self.msk_history.len() - 1 - (back as usize % self.msk_history.len());
        let (bytes, mm) = self.msk_history[hi].clone();
        let ui = pick(usk, self.usks.len());
        let mut stale: MasterSecretKey = match de(&bytes) {
            Ok(k) => k,
            Err(e) => return self.fail(&["C13"], "roundtrip-deserialize-failed:msk", e),
        };
        let mut key = self.usks[ui].key.clone();
        let before_usk = ser(&key).map_err(|f| Abort::Violation(f))?;
        let known = mm.users.contains(&self.usks[ui].m.id);
        let r = self.cc.refresh_usk(&mut stale, &mut key, keep);
        self.log(format!("probe: refresh_usk(master key snapshot -{back}, clone of user key #{ui}, keep={keep}) [id known to snapshot: {known}] -> {}", okerr(&r)));
        self.count("probe-stale");
        if known {
            self.events.insert("stale-refresh-known-id");
            if let Err(e) = &r {
                return self.fail(&["C09", "C17"], "expected-ok-got-err:refresh-with-older-master-key", format!("id registered in the snapshot, refresh failed: {}", short_err(e)));
            }
        } else {
            self.events.insert("stale-refresh-unknown-id");
            self.events.insert("late-error");
            if r.is_ok() {
                return self.fail(&["C17", "C09", "C08"], "expected-err-got-ok:refresh:unknown-user", "a master key that never registered this identifier refreshed the key".into());
            }
            self.usk_untouched(&before_usk, &key, "refresh_usk", "unknown-user")?;
            let old: MasterSecretKey = de(&bytes).map_err(|e| Abort::Violation(Fail::new("internal", e)))?;
            if old != stale {
                self.soft(&["C10", "C17"], "msk-modified-by-failed-refresh_usk:unknown-user", "refresh returned Err but the (snapshot) master key changed (e.g. an identifier was registered)".into())?;
            }
        }
        // a master key restored from an older serialization must still hand out fresh identifiers
        if let Ok(mut restored) = de::<MasterSecretKey>(&bytes) {
            if let Ok(k) = self.cc.generate_user_secret_key(&mut restored, &AccessPolicy::Broadcast) {
                if let Ok(w) = ser(&k).map_err(|_| ()).and_then(|b| WUsk::decode(&b).map_err(|_| ())) {
                    let live = self.snapshot_msk()?;
                    if let Ok(wm) = WMsk::decode(&live) {
                        self.count("restored-keygen-id-checked");
                        if wm.users.iter().any(|u| *u == w.id) {
                            return self.fail(&["C17", "C16"], "restored-master-key-reissues-an-identifier", "a key generated by a restored snapshot of the master key carries an identifier the live master key already issued".into());
                        }
                    }
                }
            }
        }
        self.remember_msk();
        Ok(())
    }

    /// [C08, C10] Refresh a tampered clone of an issued key.
    fn probe_forged(&mut self, usk: u16, kind: u8, keep: bool) -> Step {
        if self.usks.is_empty() {
            return Ok(());
        }
        let ui = pick(usk, self.usks.len());
        let bytes = ser(&self.usks[ui].key).map_err(Abort::Violation)?;
        let Ok(mut wu) = WUsk::decode(&bytes) else { return Ok(()) };
        let what;
        match kind % 9 {
            5 => {
                // strip the signature
                wu.signature = None;
                what = "strip-signature";
            }
            6 => {
                // strip the signature and take the rights of another key
                if self.usks.len() < 2 {
                    return Ok(());
                }
                let oj = (ui + 1) % self.usks.len();
                let ob = ser(&self.usks[oj].key).map_err(Abort::Violation)?;
                let Ok(wo) = WUsk::decode(&ob) else { return Ok(()) };
                if wo.rights == wu.rights {
                    return Ok(());
                }
                wu.rights = wo.rights;
                wu.signature = None;
                what = "unsigned-with-rights-of-other-key";
            }
            0 => {
                // drop a right
                if wu.rights.len() < 2 {
                    return Ok(());
                }
                wu.rights.pop();
                what = "drop-right";
            }
            1 => {
                // swap the secrets of two rights
                if wu.rights.len() < 2 {
                    return Ok(());
                }
                let a = wu.rights[0].1.clone();
                wu.rights[0].1 = wu.rights[1].1.clone();
                wu.rights[1].1 = a;
                if wu.rights[0].1 == wu.rights[1].1 {
                    return Ok(());
                }
                what = "swap-secrets";
            }
            2 => {
                // alter the signature
                if let Some(s) = wu.signature.as_mut() {
                    s[0] ^= 1;
                }
                what = "alter-signature";
            }
            3 => {
                // splice: rights of another key
                if self.usks.len() < 2 {
                    return Ok(());
                }
                let oj = (ui + 1) % self.usks.len();
                let ob = ser(&self.usks[oj].key).map_err(Abort::Violation)?;
                let Ok(wo) = WUsk::decode(&ob) else { return Ok(()) };
                if wo.rights == wu.rights {
                    return Ok(());
                }
                wu.rights = wo.rights;
                what = "splice-rights-of-other-key";
            }
            7 => {
                // change the last marker of the id (the one derived from the others)
                if let Some(m) = wu.id.last_mut() {
                    m[1] ^= 4;
                }
                what = "alter-last-marker";
            }
            8 => {
                // a genuine key of an unrelated authority
                let other = || -> Option<Vec<u8>> {
                    let (mut m2, _) = self.cc.setup().ok()?;
                    let k = self.cc.generate_user_secret_key(&mut m2, &AccessPolicy::Broadcast).ok()?;
                    ser(&k).ok()
                };
                let Some(b) = other() else { return Ok(()) };
                let Ok(w2) = WUsk::decode(&b) else { return Ok(()) };
                wu = w2;
                what = "key-of-another-master-key";
            }
            _ => {
                // change one marker of the id
                if let Some(m) = wu.id.first_mut() {
                    m[0] ^= 1;
                }
                what = "alter-id";
            }
        }
        let forged_bytes = wu.encode();
        let Ok(mut forged) = de::<UserSecretKey>(&forged_bytes) else { return Ok(()) };
        let before_msk = self.snapshot_msk()?;
        let r = self.cc.refresh_usk(&mut self.msk, &mut forged, keep);
        self.log(format!("probe: refresh_usk(forged clone of user key #{ui} [{what}], keep={keep}) -> {}", okerr(&r)));
        self.count("probe-forged");
        self.events.insert("forged-refresh");
        if r.is_ok() {
            // restore the world: the real MSK may have been touched; report
            // an altered or foreign identifier is one the master key does not know [C17]
            let props: &[&str] = if matches!(what, "alter-id" | "alter-last-marker" | "key-of-another-master-key") { &["C08", "C09", "C17"] } else { &["C08", "C09"] };
            return self.fail(props, &format!("forged-key-accepted:{what}"), format!("refresh accepted a forged user key ({what})"));
        }
        self.msk_untouched(&before_msk, "refresh_usk", "forged")?;
        self.usk_untouched(&forged_bytes, &forged, "refresh_usk", "forged")?;
        Ok(())
    }
}

fn okerr<T>(r: &Result<T, Error>) -> String {
    match r {
        Ok(_) => "Ok".into(),
        Err(e) => format!("Err({})", short_err(e).chars().take(70).collect::<String>()),
    }
}
fn errtxt<T>(r: &Result<T, Error>) -> String {
    match r {
        Ok(_) => String::new(),
        Err(e) => short_err(e),
    }
}

/// A valid ML-KEM decapsulation key (wire form) unrelated to every key of the case: taken from
/// a separate master key made once per process.
fn foreign_dk() -> Vec<u8> {
    static DK: std::sync::OnceLock<Vec<u8>> = std::sync::OnceLock::new();
    DK.get_or_init(|| {
        let mk = || -> Option<Vec<u8>> {
            let cc = Covercrypt::default();
            let (mut msk, _) = cc.setup().ok()?;
            msk.access_structure.add_anarchy("F".into()).ok()?;
            msk.access_structure.add_attribute(qa("F", "x"), hint(true), None).ok()?;
            cc.update_msk(&mut msk).ok()?;
            let w = WMsk::decode(&ser(&msk).ok()?).ok()?;
            w.rights.iter().flat_map(|(_, c)| c.iter()).find(|(_, x)| x.hyb).map(|(_, x)| x.dk.clone())
        };
        mk().unwrap_or_default()
    })
    .clone()
}
