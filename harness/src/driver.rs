//! placeholder
