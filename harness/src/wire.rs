//! Independent wire codec for every serialisable public type of the crate.
//!
//! Written from the format description (README size formulas + field order), *without* calling
//! the crate's `Serializable` implementations. It makes private state observable through
//! `serialize()` only and is the instrument for structural tampering.

#![allow(dead_code)]

pub const SCALAR: usize = 32;
#[cfg(any(feature = "cfg-r25519-512", feature = "cfg-r25519-768"))]
pub const POINT: usize = 32;
#[cfg(any(feature = "cfg-p256-512", feature = "cfg-p256-768"))]
pub const POINT: usize = 33;
#[cfg(any(feature = "cfg-r25519-512", feature = "cfg-p256-512"))]
pub const DK: usize = 1632;
#[cfg(any(feature = "cfg-r25519-512", feature = "cfg-p256-512"))]
pub const EK: usize = 800;
#[cfg(any(feature = "cfg-r25519-512", feature = "cfg-p256-512"))]
pub const CT: usize = 768;
#[cfg(any(feature = "cfg-r25519-768", feature = "cfg-p256-768"))]
pub const DK: usize = 2400;
#[cfg(any(feature = "cfg-r25519-768", feature = "cfg-p256-768"))]
pub const EK: usize = 1184;
#[cfg(any(feature = "cfg-r25519-768", feature = "cfg-p256-768"))]
pub const CT: usize = 1088;

pub const SIGNING_KEY: usize = 16;
pub const SIGNATURE: usize = 32;
pub const TAG: usize = 16;
pub const SEED: usize = 32;

#[cfg(feature = "cfg-r25519-512")]
pub const CONFIG: &str = "r25519-512";
#[cfg(feature = "cfg-r25519-768")]
pub const CONFIG: &str = "r25519-768";
#[cfg(feature = "cfg-p256-512")]
pub const CONFIG: &str = "p256-512";
#[cfg(feature = "cfg-p256-768")]
pub const CONFIG: &str = "p256-768";

pub type Bytes = Vec<u8>;

#[derive(Clone, Debug, PartialEq, Eq)]
pub struct Field {
    pub off: usize,
    pub len: usize,
    pub kind: &'static str,
    pub value: u64,
}

pub struct Reader<'a> {
    pub b: &'a [u8],
    pub pos: usize,
    pub fields: Vec<Field>,
}

pub type R<T> = Result<T, String>;

impl<'a> Reader<'a> {
    pub fn new(b: &'a [u8]) -> Self {
        Self { b, pos: 0, fields: vec![] }
    }
    pub fn remaining(&self) -> usize {
        self.b.len() - self.pos
    }
    pub fn leb(&mut self, kind: &'static str) -> R<u64> {
        let start = self.pos;
        let mut v: u64 = 0;
        let mut shift = 0u32;
        loop {
            if self.pos >= self.b.len() {
                return Err(format!("eof in leb128 {kind} at {start}"));
            }
            let byte = self.b[self.pos];
            self.pos += 1;
            if shift >= 64 || (shift == 63 && (byte & 0x7e) != 0) {
                return Err(format!("leb128 overflow {kind} at {start}"));
            }
            v |= ((byte & 0x7f) as u64) << shift;
            if byte & 0x80 == 0 {
                break;
            }
            shift += 7;
        }
        self.fields.push(Field { off: start, len: self.pos - start, kind, value: v });
        Ok(v)
    }
    pub fn take(&mut self, n: usize, what: &str) -> R<Bytes> {
        if self.remaining() < n {
            return Err(format!("eof reading {n} bytes of {what} at {}", self.pos));
        }
        let v = self.b[self.pos..self.pos + n].to_vec();
        self.pos += n;
        Ok(v)
    }
    pub fn count(&mut self, kind: &'static str) -> R<usize> {
        let n = self.leb(kind)?;
        // a well-formed object cannot announce more elements than bytes left
        if n as u128 > self.remaining() as u128 + 1 {
            return Err(format!("count {n} for {kind} exceeds remaining input"));
        }
        Ok(n as usize)
    }
    pub fn vec(&mut self, kind: &'static str) -> R<Bytes> {
        let n = self.leb(kind)?;
        if n as u128 > self.remaining() as u128 {
            return Err(format!("vec length {n} for {kind} exceeds remaining input"));
        }
        self.take(n as usize, kind)
    }
}

pub fn leb_encode(mut v: u64, out: &mut Bytes) {
    loop {
        let mut byte = (v & 0x7f) as u8;
        v >>= 7;
        if v != 0 {
            byte |= 0x80;
        }
        out.push(byte);
        if v == 0 {
            break;
        }
    }
}

pub fn leb_len(v: u64) -> usize {
    let mut o = vec![];
    leb_encode(v, &mut o);
    o.len()
}

fn put_vec(v: &[u8], out: &mut Bytes) {
    leb_encode(v.len() as u64, out);
    out.extend_from_slice(v);
}

// ------------------------------------------------------------------ access structure

#[derive(Clone, Debug, PartialEq, Eq)]
pub struct WAttr {
    pub name: String,
    pub id: u64,
    pub hint: u64,
    pub status: u64, // 1 = EncryptDecrypt, 0 = DecryptOnly
}

#[derive(Clone, Debug, PartialEq, Eq)]
pub struct WDim {
    pub name: String,
    pub ordered: u64,
    pub attrs: Vec<WAttr>,
}

#[derive(Clone, Debug, PartialEq, Eq)]
pub struct WStructure {
    /// 0 = V1 (pinned release), 1 = V2 (carries the next attribute id)
    pub version: u64,
    pub next_id: Option<u64>,
    pub dims: Vec<WDim>,
}

impl WStructure {
    pub fn read(r: &mut Reader) -> R<Self> {
        let version = r.leb("structure.version")?;
        if version > 1 {
            return Err(format!("unknown structure version {version}"));
        }
        let next_id = if version == 1 { Some(r.leb("structure.next_id")?) } else { None };
        let n = r.count("structure.n_dims")?;
        let mut dims = Vec::new();
        for _ in 0..n {
            let name = String::from_utf8(r.vec("dim.name")?).map_err(|e| e.to_string())?;
            let ordered = r.leb("dim.ordered")?;
            let na = r.count("dim.n_attrs")?;
            let mut attrs = Vec::new();
            for _ in 0..na {
                let an = String::from_utf8(r.vec("attr.name")?).map_err(|e| e.to_string())?;
                let id = r.leb("attr.id")?;
                let hint = r.leb("attr.hint")?;
                let status = r.leb("attr.status")?;
                attrs.push(WAttr { name: an, id, hint, status });
            }
            dims.push(WDim { name, ordered, attrs });
        }
        Ok(Self { version, next_id, dims })
    }
    pub fn write(&self, out: &mut Bytes) {
        leb_encode(self.version, out);
        if let Some(n) = self.next_id {
            leb_encode(n, out);
        }
        leb_encode(self.dims.len() as u64, out);
        for d in &self.dims {
            put_vec(d.name.as_bytes(), out);
            leb_encode(d.ordered, out);
            leb_encode(d.attrs.len() as u64, out);
            for a in &d.attrs {
                put_vec(a.name.as_bytes(), out);
                leb_encode(a.id, out);
                leb_encode(a.hint, out);
                leb_encode(a.status, out);
            }
        }
    }
    pub fn decode(b: &[u8]) -> R<Self> {
        let mut r = Reader::new(b);
        let s = Self::read(&mut r)?;
        if r.remaining() != 0 {
            return Err("trailing bytes after structure".into());
        }
        Ok(s)
    }
    pub fn encode(&self) -> Bytes {
        let mut o = vec![];
        self.write(&mut o);
        o
    }
    pub fn dim(&self, name: &str) -> Option<&WDim> {
        self.dims.iter().find(|d| d.name == name)
    }
    pub fn attr(&self, dim: &str, name: &str) -> Option<&WAttr> {
        self.dim(dim).and_then(|d| d.attrs.iter().find(|a| a.name == name))
    }
}

// ------------------------------------------------------------------ secrets / public keys

#[derive(Clone, Debug, PartialEq, Eq, Hash)]
pub struct WSecret {
    pub hyb: bool,
    pub sk: Bytes,
    pub dk: Bytes, // empty when classic
}

impl WSecret {
    pub fn read(r: &mut Reader) -> R<Self> {
        let flag = r.leb("secret.flavour")?;
        let sk = r.take(SCALAR, "secret.sk")?;
        match flag {
            0 => Ok(Self { hyb: false, sk, dk: vec![] }),
            1 => Ok(Self { hyb: true, sk, dk: r.take(DK, "secret.dk")? }),
            f => Err(format!("invalid flavour flag {f}")),
        }
    }
    pub fn write(&self, out: &mut Bytes) {
        leb_encode(self.hyb as u64, out);
        out.extend_from_slice(&self.sk);
        if self.hyb {
            out.extend_from_slice(&self.dk);
        }
    }
}

#[derive(Clone, Debug, PartialEq, Eq)]
pub struct WPub {
    pub hyb: bool,
    pub h: Bytes,
    pub ek: Bytes,
}

impl WPub {
    pub fn read(r: &mut Reader) -> R<Self> {
        let flag = r.leb("pub.flavour")?;
        let h = r.take(POINT, "pub.H")?;
        match flag {
            0 => Ok(Self { hyb: false, h, ek: vec![] }),
            1 => Ok(Self { hyb: true, h, ek: r.take(EK, "pub.ek")? }),
            f => Err(format!("invalid flavour flag {f}")),
        }
    }
    pub fn write(&self, out: &mut Bytes) {
        leb_encode(self.hyb as u64, out);
        out.extend_from_slice(&self.h);
        if self.hyb {
            out.extend_from_slice(&self.ek);
        }
    }
}

// ------------------------------------------------------------------ MSK

#[derive(Clone, Debug, PartialEq, Eq)]
pub struct WMsk {
    pub s: Bytes,
    pub tracers: Vec<(Bytes, Bytes)>,
    pub users: Vec<Vec<Bytes>>,
    pub rights: Vec<(Bytes, Vec<(u64, WSecret)>)>,
    pub signing_key: Option<Bytes>,
    pub structure: WStructure,
}

impl WMsk {
    pub fn read(r: &mut Reader) -> R<Self> {
        let s = r.take(SCALAR, "msk.s")?;
        let nt = r.count("msk.n_tracers")?;
        let mut tracers = vec![];
        for _ in 0..nt {
            let sk = r.take(SCALAR, "tracer.sk")?;
            let pk = r.take(POINT, "tracer.pk")?;
            tracers.push((sk, pk));
        }
        let nu = r.count("msk.n_users")?;
        let mut users = vec![];
        for _ in 0..nu {
            let nm = r.count("userid.n_markers")?;
            let mut id = vec![];
            for _ in 0..nm {
                id.push(r.take(SCALAR, "userid.marker")?);
            }
            users.push(id);
        }
        let nr = r.count("msk.n_rights")?;
        let mut rights = vec![];
        for _ in 0..nr {
            let right = r.vec("right")?;
            let nk = r.count("msk.chain_len")?;
            let mut chain = vec![];
            for _ in 0..nk {
                let act = r.leb("msk.activated")?;
                chain.push((act, WSecret::read(r)?));
            }
            rights.push((right, chain));
        }
        let signing_key = if r.remaining() < SIGNING_KEY {
            None
        } else {
            Some(r.take(SIGNING_KEY, "msk.signing_key")?)
        };
        let structure = WStructure::read(r)?;
        Ok(Self { s, tracers, users, rights, signing_key, structure })
    }
    pub fn decode(b: &[u8]) -> R<Self> {
        let mut r = Reader::new(b);
        let s = Self::read(&mut r)?;
        if r.remaining() != 0 {
            return Err(format!("{} trailing bytes after msk", r.remaining()));
        }
        Ok(s)
    }
    pub fn encode(&self) -> Bytes {
        let mut o = vec![];
        o.extend_from_slice(&self.s);
        leb_encode(self.tracers.len() as u64, &mut o);
        for (sk, pk) in &self.tracers {
            o.extend_from_slice(sk);
            o.extend_from_slice(pk);
        }
        leb_encode(self.users.len() as u64, &mut o);
        for u in &self.users {
            leb_encode(u.len() as u64, &mut o);
            for m in u {
                o.extend_from_slice(m);
            }
        }
        leb_encode(self.rights.len() as u64, &mut o);
        for (right, chain) in &self.rights {
            put_vec(right, &mut o);
            leb_encode(chain.len() as u64, &mut o);
            for (act, s) in chain {
                leb_encode(*act, &mut o);
                s.write(&mut o);
            }
        }
        if let Some(k) = &self.signing_key {
            o.extend_from_slice(k);
        }
        self.structure.write(&mut o);
        o
    }
    pub fn chain(&self, right: &[u8]) -> Option<&Vec<(u64, WSecret)>> {
        self.rights.iter().find(|(r, _)| r == right).map(|(_, c)| c)
    }
}

// ------------------------------------------------------------------ MPK

#[derive(Clone, Debug, PartialEq, Eq)]
pub struct WMpk {
    pub tpk: Vec<Bytes>,
    pub keys: Vec<(Bytes, WPub)>,
    pub structure: WStructure,
}

impl WMpk {
    pub fn read(r: &mut Reader) -> R<Self> {
        let nt = r.count("mpk.n_tracers")?;
        let mut tpk = vec![];
        for _ in 0..nt {
            tpk.push(r.take(POINT, "mpk.tracer")?);
        }
        let nk = r.count("mpk.n_rights")?;
        let mut keys = vec![];
        for _ in 0..nk {
            let right = r.vec("right")?;
            keys.push((right, WPub::read(r)?));
        }
        let structure = WStructure::read(r)?;
        Ok(Self { tpk, keys, structure })
    }
    pub fn decode(b: &[u8]) -> R<Self> {
        let mut r = Reader::new(b);
        let s = Self::read(&mut r)?;
        if r.remaining() != 0 {
            return Err("trailing bytes after mpk".into());
        }
        Ok(s)
    }
    pub fn encode(&self) -> Bytes {
        let mut o = vec![];
        leb_encode(self.tpk.len() as u64, &mut o);
        for p in &self.tpk {
            o.extend_from_slice(p);
        }
        leb_encode(self.keys.len() as u64, &mut o);
        for (right, k) in &self.keys {
            put_vec(right, &mut o);
            k.write(&mut o);
        }
        self.structure.write(&mut o);
        o
    }
    pub fn key(&self, right: &[u8]) -> Option<&WPub> {
        self.keys.iter().find(|(r, _)| r == right).map(|(_, k)| k)
    }
}

// ------------------------------------------------------------------ USK

#[derive(Clone, Debug, PartialEq, Eq)]
pub struct WUsk {
    pub id: Vec<Bytes>,
    pub ps: Vec<Bytes>,
    pub rights: Vec<(Bytes, Vec<WSecret>)>,
    pub signature: Option<Bytes>,
}

impl WUsk {
    pub fn read(r: &mut Reader) -> R<Self> {
        let nm = r.count("userid.n_markers")?;
        let mut id = vec![];
        for _ in 0..nm {
            id.push(r.take(SCALAR, "userid.marker")?);
        }
        let np = r.count("usk.n_ps")?;
        let mut ps = vec![];
        for _ in 0..np {
            ps.push(r.take(POINT, "usk.p")?);
        }
        let nr = r.count("usk.n_rights")?;
        let mut rights = vec![];
        for _ in 0..nr {
            let right = r.vec("right")?;
            let nk = r.count("usk.chain_len")?;
            let mut chain = vec![];
            for _ in 0..nk {
                chain.push(WSecret::read(r)?);
            }
            rights.push((right, chain));
        }
        let signature = if r.remaining() < SIGNATURE {
            None
        } else {
            Some(r.take(SIGNATURE, "usk.signature")?)
        };
        Ok(Self { id, ps, rights, signature })
    }
    pub fn decode(b: &[u8]) -> R<Self> {
        let mut r = Reader::new(b);
        let s = Self::read(&mut r)?;
        if r.remaining() != 0 {
            return Err(format!("{} trailing bytes after usk", r.remaining()));
        }
        Ok(s)
    }
    pub fn encode(&self) -> Bytes {
        let mut o = vec![];
        leb_encode(self.id.len() as u64, &mut o);
        for m in &self.id {
            o.extend_from_slice(m);
        }
        leb_encode(self.ps.len() as u64, &mut o);
        for p in &self.ps {
            o.extend_from_slice(p);
        }
        leb_encode(self.rights.len() as u64, &mut o);
        for (right, chain) in &self.rights {
            put_vec(right, &mut o);
            leb_encode(chain.len() as u64, &mut o);
            for s in chain {
                s.write(&mut o);
            }
        }
        if let Some(s) = &self.signature {
            o.extend_from_slice(s);
        }
        o
    }
    /// The byte stream fed to the MAC by the pinned release: markers, then for each right its
    /// bytes followed by its secrets (sk, then dk for hybridized), all unframed.
    pub fn mac_stream(&self) -> Bytes {
        let mut o = vec![];
        for m in &self.id {
            o.extend_from_slice(m);
        }
        for (right, chain) in &self.rights {
            o.extend_from_slice(right);
            for s in chain {
                o.extend_from_slice(&s.sk);
                if s.hyb {
                    o.extend_from_slice(&s.dk);
                }
            }
        }
        o
    }
    pub fn chain(&self, right: &[u8]) -> Option<&Vec<WSecret>> {
        self.rights.iter().find(|(r, _)| r == right).map(|(_, c)| c)
    }
}

// ------------------------------------------------------------------ XEnc / headers

#[derive(Clone, Debug, PartialEq, Eq)]
pub struct WXEnc {
    pub tag: Bytes,
    pub c: Vec<Bytes>,
    pub hyb: bool,
    /// (ML-KEM ciphertext (empty when classic), masked seed F)
    pub encs: Vec<(Bytes, Bytes)>,
}

impl WXEnc {
    pub fn read(r: &mut Reader) -> R<Self> {
        let tag = r.take(TAG, "xenc.tag")?;
        let nc = r.count("xenc.n_traps")?;
        let mut c = vec![];
        for _ in 0..nc {
            c.push(r.take(POINT, "xenc.trap")?);
        }
        let flag = r.leb("xenc.flavour")?;
        if flag > 1 {
            return Err(format!("invalid flavour flag {flag}"));
        }
        let hyb = flag == 1;
        let ne = r.count("xenc.n_encs")?;
        let mut encs = vec![];
        for _ in 0..ne {
            let e = if hyb { r.take(CT, "xenc.E")? } else { vec![] };
            let f = r.take(SEED, "xenc.F")?;
            encs.push((e, f));
        }
        Ok(Self { tag, c, hyb, encs })
    }
    pub fn decode(b: &[u8]) -> R<Self> {
        let mut r = Reader::new(b);
        let s = Self::read(&mut r)?;
        if r.remaining() != 0 {
            return Err("trailing bytes after xenc".into());
        }
        Ok(s)
    }
    pub fn write(&self, o: &mut Bytes) {
        o.extend_from_slice(&self.tag);
        leb_encode(self.c.len() as u64, o);
        for p in &self.c {
            o.extend_from_slice(p);
        }
        leb_encode(self.hyb as u64, o);
        leb_encode(self.encs.len() as u64, o);
        for (e, f) in &self.encs {
            if self.hyb {
                o.extend_from_slice(e);
            }
            o.extend_from_slice(f);
        }
    }
    pub fn encode(&self) -> Bytes {
        let mut o = vec![];
        self.write(&mut o);
        o
    }
    /// README formula for the encapsulation size.
    pub fn formula_len(n_traps: usize, hyb: bool, n: usize) -> usize {
        TAG + leb_len(n_traps as u64) + n_traps * POINT + 1 + leb_len(n as u64) + n * (SEED + if hyb { CT } else { 0 })
    }
}

#[derive(Clone, Debug, PartialEq, Eq)]
pub struct WHeader {
    pub enc: WXEnc,
    pub meta: Bytes,
}

impl WHeader {
    pub fn decode(b: &[u8]) -> R<Self> {
        let mut r = Reader::new(b);
        let enc = WXEnc::read(&mut r)?;
        let meta = r.vec("header.metadata")?;
        if r.remaining() != 0 {
            return Err("trailing bytes after header".into());
        }
        Ok(Self { enc, meta })
    }
    pub fn encode(&self) -> Bytes {
        let mut o = vec![];
        self.enc.write(&mut o);
        put_vec(&self.meta, &mut o);
        o
    }
}

#[derive(Clone, Debug, PartialEq, Eq)]
pub struct WCleartext {
    pub secret: Bytes,
    pub meta: Bytes,
}

impl WCleartext {
    pub fn decode(b: &[u8]) -> R<Self> {
        let mut r = Reader::new(b);
        let secret = r.take(SEED, "cleartext.secret")?;
        let meta = r.vec("cleartext.metadata")?;
        if r.remaining() != 0 {
            return Err("trailing bytes after cleartext header".into());
        }
        Ok(Self { secret, meta })
    }
    pub fn encode(&self) -> Bytes {
        let mut o = self.secret.clone();
        put_vec(&self.meta, &mut o);
        o
    }
}

/// Fields (offset, length, kind, value) of all LEB128 counts / lengths / flags in a
/// serialisation of the given type; used by the hostile-bytes generator.
pub fn fields_of(kind: &str, b: &[u8]) -> R<Vec<Field>> {
    let mut r = Reader::new(b);
    match kind {
        "xenc" => {
            WXEnc::read(&mut r)?;
        }
        "header" => {
            WXEnc::read(&mut r)?;
            r.vec("header.metadata")?;
        }
        "usk" => {
            WUsk::read(&mut r)?;
        }
        "mpk" => {
            WMpk::read(&mut r)?;
        }
        "msk" => {
            WMsk::read(&mut r)?;
        }
        "structure" => {
            WStructure::read(&mut r)?;
        }
        k => return Err(format!("unknown kind {k}")),
    }
    Ok(r.fields)
}

/// Encode a right (set of attribute ids) as the crate does: sorted ids, LEB128 each.
pub fn right_bytes(ids: &[u64]) -> Bytes {
    let mut ids = ids.to_vec();
    ids.sort_unstable();
    let mut o = vec![];
    for i in ids {
        leb_encode(i, &mut o);
    }
    o
}

pub fn hex(b: &[u8]) -> String {
    let mut s = String::with_capacity(b.len() * 2);
    for x in b {
        s.push_str(&format!("{x:02x}"));
    }
    s
}

pub fn unhex(s: &str) -> Option<Bytes> {
    if s.len() % 2 != 0 {
        return None;
    }
    (0..s.len() / 2)
        .map(|i| u8::from_str_radix(&s[2 * i..2 * i + 2], 16).ok())
        .collect()
}
