//! Parallel case runner on top of proptest strategies, with explicit shrinking.
//!
//! proptest is used as a library: each worker thread owns a `TestRunner` seeded from
//! (VERIF_SEED, thread index), draws value trees from the strategy, runs the check and, on
//! failure, shrinks the tree by hand (simplify / complicate) keeping only candidates that fail
//! with the *same signature*. The minimal case is serialised to JSON and becomes the replay file.

use crate::report::{CheckResult, Collector, Fail, Violation};
use proptest::strategy::{Strategy, ValueTree};
use proptest::test_runner::{Config, RngAlgorithm, TestRng, TestRunner};
use serde::Serialize;
use std::cell::RefCell;
use std::panic::{catch_unwind, AssertUnwindSafe};
use std::sync::atomic::{AtomicU64, Ordering};

thread_local! {
    pub static LAST_PANIC: RefCell<Option<(String, String)>> = const { RefCell::new(None) };
}

/// Install a quiet panic hook that remembers location + message per thread.
pub fn install_panic_hook() {
    std::panic::set_hook(Box::new(|info| {
        let loc = info
            .location()
            .map(|l| {
                let f = l.file();
                // keep path relative to crate roots so signatures are stable
                let f = f.rsplit_once("/src/").map(|(_, b)| b).unwrap_or(f);
                format!("{}:{}", f, l.line())
            })
            .unwrap_or_else(|| "?".into());
        let msg = if let Some(s) = info.payload().downcast_ref::<&str>() {
            s.to_string()
        } else if let Some(s) = info.payload().downcast_ref::<String>() {
            s.clone()
        } else {
            "<non-string panic>".into()
        };
        LAST_PANIC.with(|p| *p.borrow_mut() = Some((loc, msg)));
    }));
}

pub fn take_panic() -> (String, String) {
    LAST_PANIC
        .with(|p| p.borrow_mut().take())
        .unwrap_or(("?".into(), "?".into()))
}

/// Run `f`, turning a panic into a `Fail` with signature `panic@<file:line>`.
pub fn guarded<T>(f: impl FnOnce() -> Result<T, Fail>) -> Result<T, Fail> {
    match catch_unwind(AssertUnwindSafe(f)) {
        Ok(r) => r,
        Err(_) => {
            let (loc, msg) = take_panic();
            Err(Fail::new(format!("panic@{loc}"), format!("panic at {loc}: {msg}")))
        }
    }
}

fn seed_bytes(seed: u64, stream: u64) -> [u8; 32] {
    let mut b = [0u8; 32];
    b[..8].copy_from_slice(&seed.to_le_bytes());
    b[8..16].copy_from_slice(&stream.to_le_bytes());
    b[16..24].copy_from_slice(&0x9e3779b97f4a7c15u64.wrapping_mul(seed ^ stream.rotate_left(17)).to_le_bytes());
    b[24..32].copy_from_slice(b"vcheck01");
    b
}

pub fn new_runner(seed: u64, stream: u64) -> TestRunner {
    let cfg = Config {
        failure_persistence: None,
        ..Config::default()
    };
    TestRunner::new_with_rng(cfg, TestRng::from_seed(RngAlgorithm::ChaCha, &seed_bytes(seed, stream)))
}

pub struct RunCfg {
    pub seed: u64,
    pub threads: usize,
    pub cases: u64,
    pub max_shrink_iters: u32,
    /// label used to derive distinct random streams for distinct phases of one check
    pub stream_base: u64,
}

/// Store a replay file and return its path.
pub fn write_replay(property: &str, kind: &str, signature: &str, message: &str, case: &serde_json::Value) -> String {
    let dir = format!("{}/replays/{}", crate::verif_root(), property);
    let _ = std::fs::create_dir_all(&dir);
    let body = serde_json::json!({
        "property": property,
        "kind": kind,
        "signature": signature,
        "message": message,
        "case": case,
    });
    let text = serde_json::to_string_pretty(&body).unwrap();
    let h = crate::report::fp(&text);
    let path = format!("{dir}/{kind}-{h:016x}.json");
    let _ = std::fs::write(&path, text);
    path
}

/// Run `cases` generated cases of `strategy` through `check` on `threads` threads.
/// `kind` names the case type for replay dispatch.
pub fn run_cases<S, G, F>(cfg: &RunCfg, kind: &str, make_strategy: G, col: &Collector, check: F)
where
    S: Strategy,
    G: Fn() -> S + Sync,
    S::Value: Serialize + Clone + std::fmt::Debug,
    F: Fn(&S::Value, &Collector) -> CheckResult + Sync,
{
    let next = AtomicU64::new(0);
    std::thread::scope(|scope| {
        for t in 0..cfg.threads {
            let next = &next;
            let check = &check;
            let make_strategy = &make_strategy;
            scope.spawn(move || {
                let strategy = make_strategy();
                let mut runner = new_runner(cfg.seed, cfg.stream_base.wrapping_mul(1000) + t as u64);
                // static partition: thread t does cases t, t+threads, ... so that the stream of
                // every thread is a pure function of (seed, t).
                let mut i = t as u64;
                while i < cfg.cases {
                    if col.stopped() {
                        break;
                    }
                    next.fetch_add(1, Ordering::Relaxed);
                    let mut tree = match strategy.new_tree(&mut runner) {
                        Ok(t) => t,
                        Err(e) => {
                            col.note(format!("strategy rejected: {e}"));
                            i += cfg.threads as u64;
                            continue;
                        }
                    };
                    let v = tree.current();
                    col.eval(1);
                    let r = guarded(|| check(&v, col));
                    if let Err(fail) = r {
                        if col.is_known(&fail.signature) {
                            col.known_hit(&fail.signature, &fail.message);
                        } else {
                            // claim the stop flag first so other threads wind down
                            col.stop.store(true, Ordering::SeqCst);
                            let (min, fail) = shrink(&mut tree, v, fail, cfg.max_shrink_iters, col, check);
                            let case = serde_json::to_value(&min).unwrap_or(serde_json::Value::Null);
                            let replay = write_replay(&col.property, kind, &fail.signature, &fail.message, &case);
                            col.violation(Violation {
                                signature: fail.signature,
                                message: fail.message,
                                case,
                                replay: Some(replay),
                            });
                            break;
                        }
                    }
                    i += cfg.threads as u64;
                }
            });
        }
    });
}

fn shrink<T, V, F>(tree: &mut T, first: V, first_fail: Fail, max_iters: u32, col: &Collector, check: &F) -> (V, Fail)
where
    T: ValueTree<Value = V>,
    V: Clone,
    F: Fn(&V, &Collector) -> CheckResult,
{
    let scratch = col.scratch();
    let mut best = first;
    let mut best_fail = first_fail;
    let mut iters = 0;
    if !tree.simplify() {
        return (best, best_fail);
    }
    loop {
        iters += 1;
        if iters > max_iters {
            break;
        }
        let v = tree.current();
        let r = guarded(|| check(&v, &scratch));
        let same = matches!(&r, Err(f) if f.signature == best_fail.signature);
        if same {
            best = v;
            best_fail = r.err().unwrap();
            if !tree.simplify() {
                break;
            }
        } else if !tree.complicate() {
            break;
        }
    }
    (best, best_fail)
}

/// Simple parallel-for over an index range (for exhaustive enumerations); stops early when the
/// collector is stopped.
pub fn par_for<F>(threads: usize, n: u64, col: &Collector, f: F)
where
    F: Fn(u64) + Sync,
{
    let next = AtomicU64::new(0);
    std::thread::scope(|scope| {
        for _ in 0..threads {
            scope.spawn(|| loop {
                if col.stopped() {
                    break;
                }
                let i = next.fetch_add(1, Ordering::Relaxed);
                if i >= n {
                    break;
                }
                f(i);
            });
        }
    });
}

/// Report a failure found outside `run_cases` (enumerations): known → counted, else violation.
pub fn report_fail(col: &Collector, kind: &str, fail: Fail, case: serde_json::Value) {
    if col.is_known(&fail.signature) {
        col.known_hit(&fail.signature, &fail.message);
        return;
    }
    if col.scratch {
        col.violation(Violation { signature: fail.signature, message: fail.message, case, replay: None });
        return;
    }
    // only keep the first violation per signature
    {
        let v = col.violations.lock().unwrap();
        if v.iter().any(|x| x.signature == fail.signature) {
            return;
        }
    }
    let replay = write_replay(&col.property, kind, &fail.signature, &fail.message, &case);
    col.violation(Violation {
        signature: fail.signature,
        message: fail.message,
        case,
        replay: Some(replay),
    });
}
