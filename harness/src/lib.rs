//! vcheck — property-based checks for Cosmian/cover_crypt (one binary per crypto configuration).
//!
//! usage: vcheck <ID> [--tier quick|thorough] [--seed N] [--out report.json]
//!               [--known sig,sig] [--replay file] [--threads N]
//!        vcheck --worker            (isolated child for hostile inputs)

pub mod ccx;
pub mod curve;
pub mod driver;
pub mod gen;
pub mod model;
pub mod props;
pub mod report;
pub mod runner;
pub mod wire;
pub mod worker;
pub mod fuzz_api;

use report::Collector;

use serde_json::json;
use std::time::Instant;

pub fn verif_root() -> String {
    std::env::var("VERIF_ROOT").unwrap_or_else(|_| "/verif".to_string())
}

#[derive(Clone, Debug)]
pub struct Ctx {
    pub id: String,
    pub thorough: bool,
    pub seed: u64,
    pub threads: usize,
}

impl Ctx {
    /// pick the case count for the tier
    pub fn n(&self, quick: u64, thorough: u64) -> u64 {
        let scale: f64 = std::env::var("VERIF_SCALE").ok().and_then(|s| s.parse().ok()).unwrap_or(1.0);
        let base = if self.thorough { thorough } else { quick };
        ((base as f64) * scale).max(1.0) as u64
    }
    pub fn run_cfg(&self, cases: u64, stream_base: u64) -> runner::RunCfg {
        runner::RunCfg {
            seed: self.seed,
            threads: self.threads,
            cases,
            max_shrink_iters: 1500,
            stream_base,
        }
    }
}

pub fn cli_main() {
    let args: Vec<String> = std::env::args().skip(1).collect();
    if args.first().map(|s| s.as_str()) == Some("--worker") {
        worker::child_main();
        return;
    }
    if args.first().map(|s| s.as_str()) == Some("--fuzz-seeds") {
        let dir = args.get(1).cloned().unwrap_or_else(|| ".".into());
        std::fs::create_dir_all(&dir).expect("mkdir");
        // `--fuzz-seeds DIR` : seeds of parse_any;  `--fuzz-seeds DIR <ID>` : recorded generator
        // streams of the history check <ID> for the `history` target
        if let Some(id) = args.get(2) {
            for (i, s) in fuzz_api::history_seeds(id, 200).into_iter().enumerate() {
                std::fs::write(format!("{dir}/hist-{i:03}"), s).expect("write seed");
            }
            return;
        }
        for (i, s) in fuzz_api::parse_any_seeds().into_iter().enumerate() {
            std::fs::write(format!("{dir}/seed-{i:02}"), s).expect("write seed");
        }
        return;
    }
    if args.is_empty() {
        eprintln!("usage: vcheck <ID> [--tier quick|thorough] [--seed N] [--out FILE] [--known a,b] [--replay FILE]");
        std::process::exit(2);
    }
    let id = args[0].clone();
    let mut tier = std::env::var("VERIF_TIER").unwrap_or_else(|_| "quick".into());
    let mut seed: u64 = std::env::var("VERIF_SEED").ok().and_then(|s| s.parse().ok()).unwrap_or(1);
    let mut out: Option<String> = None;
    let mut known: Vec<String> = vec![];
    let mut replay: Option<String> = None;
    let mut threads: usize = std::thread::available_parallelism().map(|n| n.get()).unwrap_or(8).min(16);
    let mut i = 1;
    while i < args.len() {
        match args[i].as_str() {
            "--tier" => {
                tier = args[i + 1].clone();
                i += 1;
            }
            "--seed" => {
                seed = args[i + 1].parse().expect("seed");
                i += 1;
            }
            "--out" => {
                out = Some(args[i + 1].clone());
                i += 1;
            }
            "--known" => {
                known = args[i + 1].split(',').filter(|s| !s.is_empty()).map(|s| s.to_string()).collect();
                i += 1;
            }
            "--replay" => {
                replay = Some(args[i + 1].clone());
                i += 1;
            }
            "--threads" => {
                threads = args[i + 1].parse().expect("threads");
                i += 1;
            }
            x => {
                eprintln!("unknown argument {x}");
                std::process::exit(2);
            }
        }
        i += 1;
    }
    runner::install_panic_hook();
    let ctx = Ctx { id: id.clone(), thorough: tier == "thorough", seed, threads };
    let col = Collector::new(&id, known);
    let t0 = Instant::now();

    let meta = if let Some(path) = &replay {
        let text = std::fs::read_to_string(path).unwrap_or_else(|e| {
            eprintln!("cannot read replay file {path}: {e}");
            std::process::exit(2);
        });
        let v: serde_json::Value = serde_json::from_str(&text).expect("replay json");
        let kind = v["kind"].as_str().unwrap_or("").to_string();
        let r = runner::guarded(|| props::replay(&ctx, &kind, &v["case"], &col));
        match r {
            Ok(()) => {
                println!("replay {path}: property held on this case");
            }
            Err(f) => {
                println!("replay {path}: FAIL [{}] {}", f.signature, f.message);
                if col.is_known(&f.signature) {
                    col.known_hit(&f.signature, &f.message);
                } else {
                    col.violation(report::Violation {
                        signature: f.signature,
                        message: f.message,
                        case: v["case"].clone(),
                        replay: Some(path.clone()),
                    });
                }
            }
        }
        props::Meta { level: "exploration", rule: "replay of one stored case".into(), exhaustive: false, assumptions: vec![] }
    } else {
        // regression tier: re-run every stored replay of this property first
        props::regression(&ctx, &col);
        props::run(&ctx, &col)
    };

    let wall = t0.elapsed().as_secs_f64();
    let mut rep = col.to_json();
    let o = rep.as_object_mut().unwrap();
    o.insert("property_id".into(), json!(id));
    o.insert("config".into(), json!(wire::CONFIG));
    o.insert("tier".into(), json!(if ctx.thorough { "thorough" } else { "quick" }));
    o.insert("seed".into(), json!(seed));
    o.insert("level".into(), json!(meta.level));
    o.insert("rule".into(), json!(meta.rule));
    o.insert("exhaustive".into(), json!(meta.exhaustive));
    o.insert("assumptions".into(), json!(meta.assumptions));
    o.insert("wall_s".into(), json!(wall));
    o.insert("threads".into(), json!(threads));
    let text = serde_json::to_string_pretty(&rep).unwrap();
    if let Some(p) = out {
        std::fs::write(&p, &text).expect("write report");
    } else {
        println!("{text}");
    }
    let nviol = col.violations.lock().unwrap().len();
    std::process::exit(if nviol > 0 { 1 } else { 0 });
}
