//! Name-level reference model of Covercrypt key management.
//!
//! Written from the property statements and the doc comments of the public API, not from the
//! expansion code: it knows dimensions, attribute names, hierarchy order, hints, status, which
//! rights (sets of model-unique attribute uids) exist and which numbered revision of each right
//! every master key, public key, user key and encapsulation holds.

#![allow(dead_code)]

use crate::gen::Conj;
use std::collections::{BTreeMap, BTreeSet};

pub type Uid = u32;
pub type RevId = u32;
pub type RightM = BTreeSet<Uid>;

#[derive(Clone, Debug, PartialEq, Eq)]
pub struct MAttr {
    pub uid: Uid,
    pub name: String,
    pub hybrid: bool,
    pub disabled: bool,
    /// integer id observed in the serialized structure of the real key (set by the driver)
    pub real_id: Option<u64>,
}

#[derive(Clone, Debug, PartialEq, Eq)]
pub struct MDim {
    pub name: String,
    pub hier: bool,
    /// rank order (lowest first) for hierarchies, insertion order otherwise
    pub attrs: Vec<MAttr>,
}

#[derive(Clone, Debug, PartialEq, Eq, Default)]
pub struct MStructure {
    pub dims: Vec<MDim>,
}

#[derive(Clone, Debug, PartialEq, Eq)]
pub enum Expect {
    Ok,
    Err(&'static str),
}

impl MStructure {
    pub fn dim(&self, name: &str) -> Option<&MDim> {
        self.dims.iter().find(|d| d.name == name)
    }
    pub fn dim_mut(&mut self, name: &str) -> Option<&mut MDim> {
        self.dims.iter_mut().find(|d| d.name == name)
    }
    pub fn attr(&self, dim: &str, name: &str) -> Option<&MAttr> {
        self.dim(dim).and_then(|d| d.attrs.iter().find(|a| a.name == name))
    }
    pub fn attr_by_uid(&self, uid: Uid) -> Option<(&MDim, &MAttr)> {
        for d in &self.dims {
            for a in &d.attrs {
                if a.uid == uid {
                    return Some((d, a));
                }
            }
        }
        None
    }
    pub fn n_attrs(&self) -> usize {
        self.dims.iter().map(|d| d.attrs.len()).sum()
    }
    pub fn n_rights(&self) -> usize {
        self.dims.iter().map(|d| d.attrs.len() + 1).product()
    }
    pub fn view(&self) -> crate::gen::View {
        self.dims
            .iter()
            .map(|d| (d.name.clone(), d.hier, d.attrs.iter().map(|a| a.name.clone()).collect()))
            .collect()
    }

    pub fn add_dim(&mut self, name: &str, hier: bool) -> Expect {
        if self.dim(name).is_some() {
            return Expect::Err("duplicate-dimension");
        }
        self.dims.push(MDim { name: name.to_string(), hier, attrs: vec![] });
        Expect::Ok
    }
    pub fn del_dim(&mut self, name: &str) -> Expect {
        match self.dims.iter().position(|d| d.name == name) {
            None => Expect::Err("unknown-dimension"),
            Some(i) => {
                self.dims.remove(i);
                Expect::Ok
            }
        }
    }
    /// Documented insertion rule: `after = None` gives the lowest rank, `after = x` puts the new
    /// attribute directly above `x`; anarchies ignore `after`.
    pub fn add_attr(&mut self, dim: &str, name: &str, hybrid: bool, after: Option<&str>, uid: Uid) -> Expect {
        let Some(d) = self.dim_mut(dim) else { return Expect::Err("unknown-dimension") };
        if d.attrs.iter().any(|a| a.name == name) {
            return Expect::Err("duplicate-attribute");
        }
        let a = MAttr { uid, name: name.to_string(), hybrid, disabled: false, real_id: None };
        if d.hier {
            match after {
                None => d.attrs.insert(0, a),
                Some(x) => match d.attrs.iter().position(|b| b.name == x) {
                    None => return Expect::Err("bad-after"),
                    Some(i) => d.attrs.insert(i + 1, a),
                },
            }
        } else {
            d.attrs.push(a);
        }
        Expect::Ok
    }
    pub fn del_attr(&mut self, dim: &str, name: &str) -> Expect {
        let Some(d) = self.dim_mut(dim) else { return Expect::Err("unknown-dimension") };
        match d.attrs.iter().position(|a| a.name == name) {
            None => Expect::Err("unknown-attribute"),
            Some(i) => {
                d.attrs.remove(i);
                Expect::Ok
            }
        }
    }
    pub fn rename(&mut self, dim: &str, old: &str, new: &str) -> Expect {
        let Some(d) = self.dim_mut(dim) else { return Expect::Err("unknown-dimension") };
        if d.attrs.iter().any(|a| a.name == new) {
            return Expect::Err("duplicate-attribute");
        }
        match d.attrs.iter_mut().find(|a| a.name == old) {
            None => Expect::Err("unknown-attribute"),
            Some(a) => {
                a.name = new.to_string();
                Expect::Ok
            }
        }
    }
    pub fn disable(&mut self, dim: &str, name: &str) -> Expect {
        let Some(d) = self.dim_mut(dim) else { return Expect::Err("unknown-dimension") };
        match d.attrs.iter_mut().find(|a| a.name == name) {
            None => Expect::Err("unknown-attribute"),
            Some(a) => {
                a.disabled = true;
                Expect::Ok
            }
        }
    }

    /// Every point of the structure: at most one attribute per dimension.
    pub fn all_points(&self) -> Vec<RightM> {
        let mut acc: Vec<RightM> = vec![BTreeSet::new()];
        for d in &self.dims {
            let mut next = acc.clone();
            for a in &d.attrs {
                for p in &acc {
                    let mut q = p.clone();
                    q.insert(a.uid);
                    next.push(q);
                }
            }
            acc = next;
        }
        acc
    }

    pub fn right_hybrid(&self, r: &RightM) -> bool {
        r.iter().any(|u| self.attr_by_uid(*u).map(|(_, a)| a.hybrid).unwrap_or(false))
    }
    pub fn right_disabled(&self, r: &RightM) -> bool {
        r.iter().any(|u| self.attr_by_uid(*u).map(|(_, a)| a.disabled).unwrap_or(false))
    }

    /// Is every name of the DNF known? (dimension, attribute)
    pub fn unknown_name(&self, dnf: &[Conj]) -> Option<&'static str> {
        for c in dnf {
            for (d, a) in c {
                match self.dim(d) {
                    None => return Some("unknown-dimension"),
                    Some(dim) => {
                        if !dim.attrs.iter().any(|x| &x.name == a) {
                            return Some("unknown-attribute");
                        }
                    }
                }
            }
        }
        None
    }

    /// A clause naming two attributes of one dimension: the model gives no judgement.
    pub fn ill_formed(dnf: &[Conj]) -> bool {
        dnf.iter().any(|c| {
            let mut seen = BTreeSet::new();
            c.iter().any(|(d, _)| !seen.insert(d.clone()))
        })
    }

    /// Rights a user policy is entitled to [C01, README "Policies and coordinates"]: for each DNF
    /// clause u, all points p such that for every dimension d mentioned by u, p has no attribute
    /// in d, or the same attribute, or (hierarchy) an attribute of rank <= u[d]. Computed by
    /// filtering all points with this predicate.
    pub fn usk_rights(&self, dnf: &[Conj]) -> Result<BTreeSet<RightM>, &'static str> {
        if let Some(e) = self.unknown_name(dnf) {
            return Err(e);
        }
        let points = self.all_points();
        let mut out = BTreeSet::new();
        for u in dnf {
            for p in &points {
                let ok = u.iter().all(|(d, a)| {
                    let dim = self.dim(d).unwrap();
                    let ua = dim.attrs.iter().position(|x| &x.name == a).unwrap();
                    match dim.attrs.iter().position(|x| p.contains(&x.uid)) {
                        None => true,
                        Some(pa) => pa == ua || (dim.hier && pa <= ua),
                    }
                });
                if ok {
                    out.insert(p.clone());
                }
            }
        }
        Ok(out)
    }

    /// Targets of an encryption policy: one right per conjunction (the set of its attributes).
    pub fn enc_rights(&self, dnf: &[Conj]) -> Result<BTreeSet<RightM>, &'static str> {
        if let Some(e) = self.unknown_name(dnf) {
            return Err(e);
        }
        let mut out = BTreeSet::new();
        for c in dnf {
            let r: RightM = c.iter().map(|(d, a)| self.attr(d, a).unwrap().uid).collect();
            out.insert(r);
        }
        Ok(out)
    }
}

impl crate::gen::RankView for MStructure {
    fn hier(&self, dim: &str) -> Option<bool> {
        self.dim(dim).map(|d| d.hier)
    }
    fn rank(&self, dim: &str, attr: &str) -> Option<usize> {
        self.dim(dim).and_then(|d| d.attrs.iter().position(|a| a.name == attr))
    }
}

#[derive(Clone, Debug, PartialEq, Eq)]
pub struct MRev {
    pub id: RevId,
    pub activated: bool,
    pub hybrid: bool,
}

#[derive(Clone, Debug, PartialEq, Eq, Default)]
pub struct MMsk {
    pub structure: MStructure,
    /// newest revision first
    pub rights: BTreeMap<RightM, Vec<MRev>>,
    pub users: BTreeSet<usize>,
}

#[derive(Clone, Debug, PartialEq, Eq)]
pub struct MMpk {
    pub structure: MStructure,
    pub keys: BTreeMap<RightM, (RevId, bool)>,
}

#[derive(Clone, Debug, PartialEq, Eq)]
pub struct MUsk {
    pub id: usize,
    /// newest first per right
    pub rights: BTreeMap<RightM, Vec<RevId>>,
    pub policy: String,
    pub refreshed: u32,
}

#[derive(Clone, Debug, PartialEq, Eq)]
pub struct MEnc {
    pub targets: BTreeSet<(RightM, RevId)>,
    pub hybrid: bool,
    pub policy: String,
    pub mpk_index: usize,
}

impl MMsk {
    pub fn mpk(&self) -> MMpk {
        MMpk {
            structure: self.structure.clone(),
            keys: self
                .rights
                .iter()
                .filter_map(|(r, chain)| chain.first().filter(|rev| rev.activated).map(|rev| (r.clone(), (rev.id, rev.hybrid))))
                .collect(),
        }
    }

    /// `update_msk`: Err iff some right of the structure is new to the MSK and contains a
    /// disabled attribute [C09]; otherwise drop rights not in the structure [C05], create rev for
    /// new rights (activated), and set `activated` of the newest rev of every right [C06].
    pub fn update(&mut self, next_rev: &mut RevId) -> (Expect, Vec<(RightM, RevId)>) {
        let points: BTreeSet<RightM> = self.structure.all_points().into_iter().collect();
        for p in &points {
            if !self.rights.contains_key(p) && self.structure.right_disabled(p) {
                return (Expect::Err("born-disabled"), vec![]);
            }
        }
        self.rights.retain(|r, _| points.contains(r));
        let mut created = vec![];
        for p in points {
            let disabled = self.structure.right_disabled(&p);
            let hybrid = self.structure.right_hybrid(&p);
            match self.rights.get_mut(&p) {
                Some(chain) => {
                    chain[0].activated = !disabled;
                }
                None => {
                    let id = *next_rev;
                    *next_rev += 1;
                    self.rights.insert(p.clone(), vec![MRev { id, activated: true, hybrid }]);
                    created.push((p, id));
                }
            }
        }
        (Expect::Ok, created)
    }

    /// `rekey`: Err iff unknown names or some right of the policy is not held; every right gets a
    /// new newest rev that inherits activation [C06] and flavour [C11].
    pub fn rekey(&mut self, dnf: &[Conj], next_rev: &mut RevId) -> (Expect, Vec<(RightM, RevId)>) {
        let rights = match self.structure.usk_rights(dnf) {
            Ok(r) => r,
            Err(e) => return (Expect::Err(e), vec![]),
        };
        if rights.iter().any(|r| !self.rights.contains_key(r)) {
            return (Expect::Err("rekey-unheld"), vec![]);
        }
        let mut created = vec![];
        for r in rights {
            let chain = self.rights.get_mut(&r).unwrap();
            let id = *next_rev;
            *next_rev += 1;
            let (activated, hybrid) = (chain[0].activated, chain[0].hybrid);
            chain.insert(0, MRev { id, activated, hybrid });
            created.push((r, id));
        }
        (Expect::Ok, created)
    }

    /// `prune`: chains of the rights of the policy held by the MSK are cut to their newest rev.
    pub fn prune(&mut self, dnf: &[Conj]) -> (Expect, usize) {
        let rights = match self.structure.usk_rights(dnf) {
            Ok(r) => r,
            Err(e) => return (Expect::Err(e), 0),
        };
        let mut removed = 0;
        for r in rights {
            if let Some(chain) = self.rights.get_mut(&r) {
                removed += chain.len() - 1;
                chain.truncate(1);
            }
        }
        (Expect::Ok, removed)
    }

    pub fn keygen(&mut self, dnf: &[Conj], id: usize, policy: String) -> Result<MUsk, &'static str> {
        let rights = self.structure.usk_rights(dnf)?;
        if rights.iter().any(|r| !self.rights.contains_key(r)) {
            return Err("keygen-unheld");
        }
        let usk = MUsk {
            id,
            rights: rights.into_iter().map(|r| {
                let rev = self.rights[&r][0].id;
                (r, vec![rev])
            }).collect(),
            policy,
            refreshed: 0,
        };
        self.users.insert(id);
        Ok(usk)
    }

    /// `refresh_usk`: Err iff the id is not registered; rights not held by the MSK are dropped;
    /// keep=false: newest rev only; keep=true: MSK revs newer than the key's newest, plus those of
    /// the key's revs that are still in the MSK chain [C04, C05]. Never adds rights.
    pub fn refresh(&self, usk: &mut MUsk, keep: bool) -> Expect {
        if !self.users.contains(&usk.id) {
            return Expect::Err("unknown-user");
        }
        let mut out = BTreeMap::new();
        for (r, revs) in &usk.rights {
            let Some(chain) = self.rights.get(r) else { continue };
            if keep {
                let newest_user = revs.iter().copied().max().unwrap_or(0);
                let mut v: Vec<RevId> = chain.iter().filter(|m| m.id > newest_user).map(|m| m.id).collect();
                v.extend(revs.iter().copied().filter(|x| chain.iter().any(|m| m.id == *x)));
                if !v.is_empty() {
                    out.insert(r.clone(), v);
                }
            } else {
                out.insert(r.clone(), vec![chain[0].id]);
            }
        }
        usk.rights = out;
        usk.refreshed += 1;
        Expect::Ok
    }
}

impl MMpk {
    /// `encaps`: Err if a name is unknown, if a conjunction names two attributes of one dimension
    /// (no such right), or if the MPK publishes no key for a right (disabled / not yet created).
    pub fn encaps(&self, dnf: &[Conj]) -> Result<(BTreeSet<(RightM, RevId)>, bool), &'static str> {
        let rights = self.structure.enc_rights(dnf)?;
        let mut targets = BTreeSet::new();
        let mut all_h = true;
        for r in rights {
            // a "right" with two attributes of one dimension is not a point of the structure
            let mut dims_seen = BTreeSet::new();
            for u in &r {
                if let Some((d, _)) = self.structure.attr_by_uid(*u) {
                    if !dims_seen.insert(d.name.clone()) {
                        return Err("enc-two-attrs-one-dim");
                    }
                }
            }
            match self.keys.get(&r) {
                None => {
                    return Err(if self.structure.right_disabled(&r) { "enc-disabled" } else { "enc-not-yet-created" });
                }
                Some((rev, h)) => {
                    all_h &= *h;
                    targets.insert((r, *rev));
                }
            }
        }
        Ok((targets, all_h))
    }
}

pub fn opens(usk: &MUsk, enc: &MEnc) -> bool {
    enc.targets.iter().any(|(r, rev)| usk.rights.get(r).map(|v| v.contains(rev)).unwrap_or(false))
}
