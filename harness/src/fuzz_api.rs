//! Entry points for the coverage-guided fuzz targets (fuzz/): each contains the oracle of its
//! property, not just "does not crash".

use crate::ccx::*;
use crate::props::{c07, c15};
use crate::report::Collector;
use std::sync::OnceLock;

fn col() -> &'static Collector {
    static C: OnceLock<Collector> = OnceLock::new();
    C.get_or_init(|| {
        let mut c = Collector::new("fuzz", vec![]);
        c.scratch = true;
        c.max_samples = 0;
        c
    })
}

/// C15: any string must parse or be rejected without panicking; strings of the reference grammar
/// must be accepted and be equivalent to the reference reading.
pub fn policy(data: &[u8]) {
    let s = String::from_utf8_lossy(data);
    if let Err(f) = c15::check_string(&s, col()) {
        panic!("C15 violation [{}]: {}", f.signature, f.message);
    }
}

struct ParseWorld {
    cc: Covercrypt,
    usks: Vec<UserSecretKey>,
    encs: Vec<XEnc>,
}

fn parse_world() -> &'static ParseWorld {
    static W: OnceLock<ParseWorld> = OnceLock::new();
    W.get_or_init(|| {
        let w = c07::world().expect("fixture");
        let encs = c07::ENC_POLICIES.iter().take(4).map(|p| w.cc.encaps(&w.mpk, &AccessPolicy::parse(p).unwrap()).unwrap().1).collect();
        ParseWorld { cc: Covercrypt::default(), usks: w.keys.into_iter().map(|k| k.1).collect(), encs }
    })
}

fn rt<T: Serializable + PartialEq + std::fmt::Debug>(x: &T, what: &str)
where
    T::Error: std::fmt::Display,
{
    // C13: whatever parses must re-serialize to something that parses to an equal object,
    // with the announced length
    let b = match ser_strict(x, what) {
        Ok(b) => b,
        Err(f) => panic!("C13 violation [{}]: {}", f.signature, f.message),
    };
    match de::<T>(&b) {
        Ok(y) => {
            if &y != x {
                panic!("C13 violation: {what} differs after re-serialization");
            }
        }
        Err(e) => panic!("C13 violation: re-serialized {what} does not parse: {e}"),
    }
}

/// C14 (+C13 d): first byte selects the type; parse, re-serialize, use.
pub fn parse_any(data: &[u8]) {
    if data.is_empty() {
        return;
    }
    let w = parse_world();
    let b = &data[1..];
    match data[0] % 7 {
        0 => {
            if let Ok(e) = de::<XEnc>(b) {
                rt(&e, "XEnc");
                let _ = e.tracing_level();
                let _ = e.count();
                if e.count() <= 8 {
                    for u in w.usks.iter().take(2) {
                        let _ = w.cc.decaps(u, &e);
                    }
                }
            }
        }
        1 => {
            if let Ok(h) = de::<EncryptedHeader>(b) {
                rt(&h, "EncryptedHeader");
                if h.encapsulation.count() <= 8 {
                    let _ = h.decrypt(&w.cc, &w.usks[0], None);
                }
            }
        }
        2 => {
            if let Ok(u) = de::<UserSecretKey>(b) {
                rt(&u, "UserSecretKey");
                let _ = u.tracing_level();
                if b.len() < 4000 {
                    let _ = w.cc.decaps(&u, &w.encs[0]);
                }
            }
        }
        3 => {
            if let Ok(p) = de::<MasterPublicKey>(b) {
                rt(&p, "MasterPublicKey");
                let _ = p.tracing_level();
                let _ = p.access_structure.attributes().count();
                let _ = w.cc.encaps(&p, &AccessPolicy::Broadcast);
            }
        }
        4 => {
            if let Ok(mut m) = de::<MasterSecretKey>(b) {
                rt(&m, "MasterSecretKey");
                let _ = m.mpk();
                if b.len() < 6000 {
                    let _ = w.cc.generate_user_secret_key(&mut m, &AccessPolicy::Broadcast);
                    let _ = w.cc.update_msk(&mut m);
                }
            }
        }
        5 => {
            if let Ok(s) = de::<AccessStructure>(b) {
                rt(&s, "AccessStructure");
                let _ = s.attributes().count();
                let _ = s.dimensions().count();
            }
        }
        _ => {
            if let Ok(c) = de::<CleartextHeader>(b) {
                // absent and empty metadata are the same value on the wire
                let b2 = ser(&c).expect("serialize");
                let c2: CleartextHeader = de(&b2).expect("re-serialized cleartext header parses");
                assert!(c2.secret == c.secret && c2.metadata.unwrap_or_default() == c.metadata.unwrap_or_default());
            }
        }
    }
}

/// Seeds for `parse_any`: valid serializations prefixed with their type selector.
pub fn parse_any_seeds() -> Vec<Vec<u8>> {
    let w = c07::world().expect("fixture");
    let mut out = vec![];
    let mut put = |sel: u8, b: Vec<u8>| {
        let mut v = vec![sel];
        v.extend(b);
        out.push(v);
    };
    for p in c07::ENC_POLICIES.iter().take(4) {
        let (_, e) = w.cc.encaps(&w.mpk, &AccessPolicy::parse(p).unwrap()).unwrap();
        put(0, ser(&e).unwrap());
    }
    let (_, h) = EncryptedHeader::generate(&w.cc, &w.mpk, &AccessPolicy::parse("DPT::FIN").unwrap(), Some(b"metadata"), None).unwrap();
    put(1, ser(&h).unwrap());
    put(2, ser(&w.keys[1].1).unwrap());
    put(2, ser(&w.keys[2].1).unwrap());
    put(3, ser(&w.mpk).unwrap());
    put(5, ser(&w.mpk.access_structure).unwrap());
    out
}

struct MutWorld {
    fx: c07::Fixture,
}

fn mut_world() -> &'static MutWorld {
    static W: OnceLock<MutWorld> = OnceLock::new();
    W.get_or_init(|| MutWorld { fx: c07::fixture().expect("fixture") })
}

/// C07: the input is a mutation script applied to a valid encapsulation: byte 0 selects the
/// victim, then triples (op, position, value). Any resulting object != original must yield no
/// secret for every key.
pub fn decaps_mutant(data: &[u8]) {
    if data.len() < 4 {
        return;
    }
    let w = mut_world();
    // victims 0..=3 (classic 1-3 targets, hybridized 1 target) keep executions fast
    let v = &w.fx.victims[data[0] as usize % 4];
    let mut m = v.bytes.clone();
    for t in data[1..].chunks_exact(3).take(6) {
        if m.is_empty() {
            break;
        }
        let pos = ((t[1] as usize) << 8 | t[2] as usize) % m.len();
        match t[0] % 6 {
            0 => m[pos] ^= 1 << (t[2] % 8),
            1 => m[pos] = t[2],
            2 => {
                m.remove(pos);
            }
            3 => m.insert(pos, t[2]),
            4 => {
                // swap two 32-byte blocks
                let a = pos - pos % 32;
                let b2 = (a + 32) % (m.len() - m.len() % 32).max(32);
                if a + 32 <= m.len() && b2 + 32 <= m.len() && a != b2 {
                    for k in 0..32 {
                        m.swap(a + k, b2 + k);
                    }
                }
            }
            _ => m.truncate(pos),
        }
    }
    if let Err(f) = c07::judge(&w.fx.world, v, &m, "fuzz-script", "any", col()) {
        panic!("C07 violation [{}]: {}", f.signature, f.message);
    }
}

// ------------------------------------------------------------------ coverage-guided histories

use crate::props::hist::{check_case, decode_case, HistCheck};

/// The property whose history profile the `history` target runs (environment VCHECK_FOCUS).
fn focus() -> &'static str {
    static F: OnceLock<String> = OnceLock::new();
    F.get_or_init(|| std::env::var("VCHECK_FOCUS").unwrap_or_else(|_| "C09".into()))
}

thread_local! {
    static HIST: HistCheck<'static> = crate::props::hist_check(focus(), false).unwrap_or_else(|| panic!("VCHECK_FOCUS={} is not a history check", focus()));
}

/// The fuzzer's bytes are decoded into a history (structure, tracing level, operation sequence)
/// of the focus property's profile, so libFuzzer mutates and splices *histories* under coverage
/// feedback from the crate. The oracle is the history check of the focus property (reference
/// model, wire codec, snapshots), not "does not crash".
pub fn history(data: &[u8]) {
    if data.len() < 8 {
        return;
    }
    HIST.with(|hc| {
        let case = decode_case(data, &hc.profile);
        if let Err(f) = check_case(hc, &case, col()) {
            panic!("{} violation [{}]: {}\nCASE {}", focus(), f.signature, f.message, serde_json::to_string(&case).unwrap_or_default());
        }
    })
}

/// Seed corpus for `history`: pseudo-random byte strings (every byte string is a history).
pub fn history_seeds(id: &str, n: usize) -> Vec<Vec<u8>> {
    let mut bits = crate::gen::Bits::new(id.bytes().fold(7u64, |a, b| a.wrapping_mul(131).wrapping_add(b as u64)));
    (0..n)
        .map(|i| {
            let len = 24 + (i * 7) % 400;
            (0..len).map(|_| bits.next() as u8).collect()
        })
        .collect()
}
