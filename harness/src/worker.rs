//! placeholder
pub fn child_main() {}
