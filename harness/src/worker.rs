//! Isolated child process for hostile inputs (C14) and parent-side handle.
//!
//! `vcheck --worker` reads one command per line on stdin and answers one line on stdout:
//!
//!   gen                     -> `seeds <kind>=<hex> ...`   valid serializations from the child's own world
//!   run <kind> <hex>        -> `<status> peak=<bytes> big=<bytes> cpu_us=<n> units=<n> detail=<text>`
//!
//! status: `ok` (parsed and used), `err` (rejected with an error), `panic@<file:line>`.
//! Aborts, signals and hangs are observed by the parent (the input in flight is known).
//! A counting global allocator measures current / peak bytes and the largest single request, and
//! refuses (returns null, which aborts the process like a real out-of-memory) any request that
//! would exceed a hard cap, so that over-allocation is a deterministic, visible failure that does
//! not depend on the machine's overcommit policy.

use crate::ccx::*;
use std::alloc::{GlobalAlloc, Layout, System};
use std::io::{BufRead, BufReader, Write};
use std::process::{Child as PChild, ChildStdin, Command, Stdio};
use std::sync::atomic::{AtomicBool, AtomicUsize, Ordering};
use std::sync::mpsc::{channel, Receiver, RecvTimeoutError};
use std::time::{Duration, Instant};

pub struct Counting;
static CUR: AtomicUsize = AtomicUsize::new(0);
static PEAK: AtomicUsize = AtomicUsize::new(0);
static BIG: AtomicUsize = AtomicUsize::new(0);
static LIMITED: AtomicBool = AtomicBool::new(false);
/// hard cap in the child: single request or total
pub const HARD_CAP: usize = 1 << 30;

unsafe impl GlobalAlloc for Counting {
    unsafe fn alloc(&self, l: Layout) -> *mut u8 {
        let sz = l.size();
        if LIMITED.load(Ordering::Relaxed) && (sz > HARD_CAP || CUR.load(Ordering::Relaxed).saturating_add(sz) > HARD_CAP) {
            return std::ptr::null_mut();
        }
        let p = System.alloc(l);
        if !p.is_null() {
            let c = CUR.fetch_add(sz, Ordering::Relaxed) + sz;
            PEAK.fetch_max(c, Ordering::Relaxed);
            BIG.fetch_max(sz, Ordering::Relaxed);
        }
        p
    }
    unsafe fn dealloc(&self, p: *mut u8, l: Layout) {
        CUR.fetch_sub(l.size(), Ordering::Relaxed);
        System.dealloc(p, l)
    }
    unsafe fn alloc_zeroed(&self, l: Layout) -> *mut u8 {
        let sz = l.size();
        if LIMITED.load(Ordering::Relaxed) && (sz > HARD_CAP || CUR.load(Ordering::Relaxed).saturating_add(sz) > HARD_CAP) {
            return std::ptr::null_mut();
        }
        let p = System.alloc_zeroed(l);
        if !p.is_null() {
            let c = CUR.fetch_add(sz, Ordering::Relaxed) + sz;
            PEAK.fetch_max(c, Ordering::Relaxed);
            BIG.fetch_max(sz, Ordering::Relaxed);
        }
        p
    }
    unsafe fn realloc(&self, p: *mut u8, l: Layout, new: usize) -> *mut u8 {
        if LIMITED.load(Ordering::Relaxed) && new > l.size() && (new > HARD_CAP || CUR.load(Ordering::Relaxed).saturating_add(new - l.size()) > HARD_CAP) {
            return std::ptr::null_mut();
        }
        let q = System.realloc(p, l, new);
        if !q.is_null() {
            if new >= l.size() {
                let c = CUR.fetch_add(new - l.size(), Ordering::Relaxed) + (new - l.size());
                PEAK.fetch_max(c, Ordering::Relaxed);
                BIG.fetch_max(new, Ordering::Relaxed);
            } else {
                CUR.fetch_sub(l.size() - new, Ordering::Relaxed);
            }
        }
        q
    }
}

fn cpu_us() -> u64 {
    let mut ts = libc::timespec { tv_sec: 0, tv_nsec: 0 };
    unsafe {
        libc::clock_gettime(libc::CLOCK_PROCESS_CPUTIME_ID, &mut ts);
    }
    ts.tv_sec as u64 * 1_000_000 + ts.tv_nsec as u64 / 1000
}

// ------------------------------------------------------------------ child side

struct ChildWorld {
    cc: Covercrypt,
    msk: MasterSecretKey,
    mpk: MasterPublicKey,
    usks: Vec<UserSecretKey>,
    encs: Vec<XEnc>,
    header: EncryptedHeader,
}

fn child_world() -> Result<ChildWorld, Error> {
    let cc = Covercrypt::default();
    let (mut msk, _) = cc.setup()?;
    msk.access_structure.add_hierarchy("SEC".into())?;
    msk.access_structure.add_attribute(qa("SEC", "LOW"), hint(false), None)?;
    msk.access_structure.add_attribute(qa("SEC", "TOP"), hint(true), Some("LOW"))?;
    msk.access_structure.add_anarchy("DPT".into())?;
    msk.access_structure.add_attribute(qa("DPT", "FIN"), hint(false), None)?;
    msk.access_structure.add_attribute(qa("DPT", "HR"), hint(false), None)?;
    cc.update_msk(&mut msk)?;
    let mut usks = vec![];
    let k0 = cc.generate_user_secret_key(&mut msk, &AccessPolicy::parse("SEC::LOW && DPT::FIN")?)?;
    let mpk = cc.rekey(&mut msk, &AccessPolicy::parse("DPT::FIN")?)?;
    let mut k1 = k0.clone();
    cc.refresh_usk(&mut msk, &mut k1, true)?;
    usks.push(k1);
    usks.push(cc.generate_user_secret_key(&mut msk, &AccessPolicy::parse("SEC::TOP && DPT::HR")?)?);
    let mut encs = vec![];
    for p in ["DPT::FIN || SEC::LOW", "SEC::TOP", "SEC::TOP && DPT::HR || SEC::TOP && DPT::FIN"] {
        encs.push(cc.encaps(&mpk, &AccessPolicy::parse(p)?)?.1);
    }
    let (_, header) = EncryptedHeader::generate(&cc, &mpk, &AccessPolicy::parse("DPT::FIN")?, Some(b"some metadata"), Some(b"aad"))?;
    Ok(ChildWorld { cc, msk, mpk, usks, encs, header })
}

fn run_input(w: &ChildWorld, kind: &str, bytes: &[u8]) -> (String, u64, String) {
    // returns (status, work units, detail)
    let mut units: u64 = 1;
    macro_rules! parse {
        ($t:ty) => {
            match <$t>::deserialize(bytes) {
                Ok(x) => x,
                Err(_) => return ("err".into(), units, "rejected".into()),
            }
        };
    }
    let mut detail = String::new();
    match kind {
        "xenc" => {
            let e = parse!(XEnc);
            let _ = e.tracing_level();
            let n = e.count() as u64;
            for u in &w.usks {
                units += n * 8;
                let r = w.cc.decaps(u, &e);
                detail.push_str(match r {
                    Ok(Some(_)) => "S",
                    Ok(None) => "N",
                    Err(_) => "E",
                });
            }
            units += n * 24;
            let r = w.cc.recaps(&w.msk, &w.mpk, &e);
            detail.push_str(if r.is_ok() { "r" } else { "x" });
            let _ = e.serialize();
        }
        "header" => {
            let h = parse!(EncryptedHeader);
            let _ = h.encapsulation.tracing_level();
            let n = h.encapsulation.count() as u64;
            for u in &w.usks {
                units += n * 8;
                let r = h.decrypt(&w.cc, u, Some(b"aad"));
                detail.push_str(match r {
                    Ok(Some(_)) => "S",
                    Ok(None) => "N",
                    Err(_) => "E",
                });
            }
            let _ = h.serialize();
        }
        "usk" => {
            let u = parse!(UserSecretKey);
            let _ = u.tracing_level();
            let sz = bytes.len() as u64 / 32 + 1;
            for e in &w.encs {
                units += sz * e.count() as u64;
                let r = w.cc.decaps(&u, e);
                detail.push_str(match r {
                    Ok(Some(_)) => "S",
                    Ok(None) => "N",
                    Err(_) => "E",
                });
            }
            let _ = w.header.decrypt(&w.cc, &u, Some(b"aad"));
            // refresh against a copy of the master key
            if let Ok(b) = w.msk.serialize() {
                if let Ok(mut m) = MasterSecretKey::deserialize(&b) {
                    let mut u2 = u.clone();
                    units += sz;
                    let r = w.cc.refresh_usk(&mut m, &mut u2, bytes.len() % 2 == 0);
                    detail.push_str(if r.is_ok() { "r" } else { "x" });
                }
            }
            let _ = u.serialize();
        }
        "mpk" => {
            let p = parse!(MasterPublicKey);
            let _ = p.tracing_level();
            let attrs: Vec<QualifiedAttribute> = p.access_structure.attributes().take(4).collect();
            let _ = p.access_structure.dimensions().count();
            units += 8;
            if let Ok((_, e)) = w.cc.encaps(&p, &AccessPolicy::Broadcast) {
                let _ = e.tracing_level();
                detail.push('b');
            }
            for a in attrs {
                units += 4;
                let r = w.cc.encaps(&p, &AccessPolicy::Term(a));
                detail.push_str(if r.is_ok() { "e" } else { "x" });
            }
            let _ = p.serialize();
        }
        "msk" => {
            let mut m = parse!(MasterSecretKey);
            let sz = bytes.len() as u64 / 32 + 1;
            units += sz * 4;
            let _ = m.access_structure.attributes().count();
            let r = m.mpk();
            detail.push_str(if r.is_ok() { "p" } else { "x" });
            let r = w.cc.generate_user_secret_key(&mut m, &AccessPolicy::Broadcast);
            detail.push_str(if r.is_ok() { "k" } else { "x" });
            if let Ok(u) = r {
                let _ = u.tracing_level();
            }
            for e in &w.encs {
                units += sz * e.count() as u64 * 2;
                let r = w.cc.recaps(&m, &w.mpk, e);
                detail.push_str(if r.is_ok() { "r" } else { "x" });
            }
            let r = w.cc.update_msk(&mut m);
            detail.push_str(if r.is_ok() { "u" } else { "x" });
            let r = w.cc.rekey(&mut m, &AccessPolicy::Broadcast);
            detail.push_str(if r.is_ok() { "R" } else { "x" });
            let _ = m.serialize();
        }
        "structure" => {
            let s = parse!(AccessStructure);
            let n = s.attributes().count();
            let _ = s.dimensions().count();
            detail.push_str(&format!("a{n}"));
            let mut s2 = s.clone();
            let _ = s2.add_anarchy("ZZ".into());
            let _ = s2.add_attribute(qa("ZZ", "z"), hint(false), None);
            let _ = s2.serialize();
        }
        // parse and inspect only (crafted inputs whose *use* is legitimately expensive)
        "structure-parse" => {
            let s = parse!(AccessStructure);
            detail.push_str(&format!("a{}d{}", s.attributes().count(), s.dimensions().count()));
        }
        "mpk-parse" => {
            let p = parse!(MasterPublicKey);
            let _ = p.tracing_level();
            detail.push_str(&format!("a{}d{}", p.access_structure.attributes().count(), p.access_structure.dimensions().count()));
        }
        "usk-parse" => {
            let u = parse!(UserSecretKey);
            detail.push_str(&format!("t{}", u.tracing_level()));
        }
        "msk-parse" => {
            let m = parse!(MasterSecretKey);
            detail.push_str(&format!("a{}d{}", m.access_structure.attributes().count(), m.access_structure.dimensions().count()));
        }
        "cleartext" => {
            let c = parse!(CleartextHeader);
            let _ = c.serialize();
        }
        _ => return ("err".into(), 0, "unknown-kind".into()),
    }
    ("ok".into(), units, detail)
}

pub fn child_main() {
    crate::runner::install_panic_hook();
    let world = match child_world() {
        Ok(w) => w,
        Err(e) => {
            println!("fatal {}", e);
            return;
        }
    };
    LIMITED.store(true, Ordering::SeqCst);
    let stdin = std::io::stdin();
    let stdout = std::io::stdout();
    let mut line = String::new();
    loop {
        line.clear();
        match stdin.lock().read_line(&mut line) {
            Ok(0) | Err(_) => return,
            Ok(_) => {}
        }
        let mut it = line.trim_end().splitn(3, ' ');
        let cmd = it.next().unwrap_or("");
        let mut out = stdout.lock();
        match cmd {
            "gen" => {
                let mut parts = vec![];
                let mut put = |k: &str, b: Vec<u8>| parts.push(format!("{k}={}", crate::wire::hex(&b)));
                for e in &world.encs {
                    put("xenc", e.serialize().unwrap().to_vec());
                }
                put("header", world.header.serialize().unwrap().to_vec());
                for u in &world.usks {
                    put("usk", u.serialize().unwrap().to_vec());
                }
                put("mpk", world.mpk.serialize().unwrap().to_vec());
                put("msk", world.msk.serialize().unwrap().to_vec());
                put("structure", world.msk.access_structure.serialize().unwrap().to_vec());
                let _ = writeln!(out, "seeds {}", parts.join(" "));
            }
            "run" => {
                let kind = it.next().unwrap_or("").to_string();
                let bytes = crate::wire::unhex(it.next().unwrap_or("")).unwrap_or_default();
                PEAK.store(CUR.load(Ordering::Relaxed), Ordering::Relaxed);
                BIG.store(0, Ordering::Relaxed);
                let base = CUR.load(Ordering::Relaxed);
                let t0 = cpu_us();
                let r = std::panic::catch_unwind(std::panic::AssertUnwindSafe(|| run_input(&world, &kind, &bytes)));
                let dt = cpu_us() - t0;
                let peak = PEAK.load(Ordering::Relaxed).saturating_sub(base);
                let big = BIG.load(Ordering::Relaxed);
                match r {
                    Ok((status, units, detail)) => {
                        let _ = writeln!(out, "{status} peak={peak} big={big} cpu_us={dt} units={units} detail={detail}");
                    }
                    Err(_) => {
                        let (loc, msg) = crate::runner::take_panic();
                        let msg: String = msg.chars().filter(|c| *c != '\n').take(120).collect();
                        let _ = writeln!(out, "panic@{loc} peak={peak} big={big} cpu_us={dt} units=0 detail={msg}");
                    }
                }
            }
            "quit" => return,
            _ => {
                let _ = writeln!(out, "err peak=0 big=0 cpu_us=0 units=0 detail=unknown-command");
            }
        }
        let _ = out.flush();
    }
}

// ------------------------------------------------------------------ parent side

pub struct Child {
    proc: PChild,
    stdin: ChildStdin,
    rx: Receiver<String>,
    pub seeds: Vec<(String, Vec<u8>)>,
}

#[derive(Debug, Clone)]
pub struct Reply {
    pub status: String,
    pub peak: u64,
    pub big: u64,
    pub cpu_us: u64,
    pub units: u64,
    pub detail: String,
}

#[derive(Debug)]
pub enum Outcome {
    Reply(Reply),
    /// child died: (how, stderr tail)
    Died(String),
    /// child consumed more CPU than the limit without answering
    Hang(u64),
    /// no answer and (almost) no CPU use: harness-side stall
    Stall,
}

fn proc_cpu_ticks(pid: u32) -> Option<u64> {
    let s = std::fs::read_to_string(format!("/proc/{pid}/stat")).ok()?;
    let rest = s.rsplit_once(')')?.1;
    let f: Vec<&str> = rest.split_whitespace().collect();
    // fields after ')': state(0) ... utime is index 11, stime 12
    Some(f.get(11)?.parse::<u64>().ok()? + f.get(12)?.parse::<u64>().ok()?)
}

impl Child {
    pub fn spawn() -> Result<Child, String> {
        let exe = std::env::current_exe().map_err(|e| e.to_string())?;
        let mut proc = Command::new(exe)
            .arg("--worker")
            .stdin(Stdio::piped())
            .stdout(Stdio::piped())
            .stderr(Stdio::piped())
            .env("RUST_BACKTRACE", "0")
            .spawn()
            .map_err(|e| e.to_string())?;
        let stdin = proc.stdin.take().unwrap();
        let stdout = proc.stdout.take().unwrap();
        let (tx, rx) = channel();
        std::thread::spawn(move || {
            let mut r = BufReader::new(stdout);
            let mut line = String::new();
            loop {
                line.clear();
                match r.read_line(&mut line) {
                    Ok(0) | Err(_) => break,
                    Ok(_) => {
                        if tx.send(line.trim_end().to_string()).is_err() {
                            break;
                        }
                    }
                }
            }
        });
        let mut c = Child { proc, stdin, rx, seeds: vec![] };
        c.stdin.write_all(b"gen\n").map_err(|e| e.to_string())?;
        c.stdin.flush().map_err(|e| e.to_string())?;
        let line = c.rx.recv_timeout(Duration::from_secs(60)).map_err(|e| format!("child did not produce seeds: {e}"))?;
        let Some(rest) = line.strip_prefix("seeds ") else { return Err(format!("unexpected child greeting: {line}")) };
        for p in rest.split(' ') {
            if let Some((k, h)) = p.split_once('=') {
                c.seeds.push((k.to_string(), crate::wire::unhex(h).unwrap_or_default()));
            }
        }
        Ok(c)
    }

    fn stderr_tail(&mut self) -> String {
        use std::io::Read;
        let mut s = String::new();
        if let Some(mut e) = self.proc.stderr.take() {
            let _ = e.read_to_string(&mut s);
        }
        let s: String = s.lines().filter(|l| !l.trim().is_empty()).take(3).collect::<Vec<_>>().join(" | ");
        s.chars().take(300).collect()
    }

    /// Send one input; `cpu_limit_s` is the CPU budget after which the child counts as hung.
    pub fn run(&mut self, kind: &str, bytes: &[u8], cpu_limit_s: f64) -> Outcome {
        let pid = self.proc.id();
        let ticks0 = proc_cpu_ticks(pid).unwrap_or(0);
        let msg = format!("run {kind} {}\n", crate::wire::hex(bytes));
        if self.stdin.write_all(msg.as_bytes()).and_then(|_| self.stdin.flush()).is_err() {
            let st = self.proc.wait().map(|s| s.to_string()).unwrap_or_default();
            return Outcome::Died(format!("{st}; {}", self.stderr_tail()));
        }
        let t0 = Instant::now();
        let hz = 100.0;
        loop {
            match self.rx.recv_timeout(Duration::from_millis(200)) {
                Ok(line) => return Outcome::Reply(parse_reply(&line)),
                Err(RecvTimeoutError::Disconnected) => {
                    let st = self.proc.wait().map(|s| s.to_string()).unwrap_or_default();
                    return Outcome::Died(format!("{st}; {}", self.stderr_tail()));
                }
                Err(RecvTimeoutError::Timeout) => {
                    let used = (proc_cpu_ticks(pid).unwrap_or(ticks0).saturating_sub(ticks0)) as f64 / hz;
                    if used > cpu_limit_s {
                        let _ = self.proc.kill();
                        let _ = self.proc.wait();
                        return Outcome::Hang((used * 1e6) as u64);
                    }
                    if t0.elapsed() > Duration::from_secs_f64(cpu_limit_s * 20.0 + 60.0) {
                        let _ = self.proc.kill();
                        let _ = self.proc.wait();
                        return Outcome::Stall;
                    }
                }
            }
        }
    }
}

impl Drop for Child {
    fn drop(&mut self) {
        let _ = self.stdin.write_all(b"quit\n");
        let _ = self.proc.kill();
        let _ = self.proc.wait();
    }
}

fn parse_reply(line: &str) -> Reply {
    let mut r = Reply { status: String::new(), peak: 0, big: 0, cpu_us: 0, units: 0, detail: String::new() };
    let mut it = line.splitn(6, ' ');
    r.status = it.next().unwrap_or("").to_string();
    for p in it {
        if let Some(v) = p.strip_prefix("peak=") {
            r.peak = v.parse().unwrap_or(0);
        } else if let Some(v) = p.strip_prefix("big=") {
            r.big = v.parse().unwrap_or(0);
        } else if let Some(v) = p.strip_prefix("cpu_us=") {
            r.cpu_us = v.parse().unwrap_or(0);
        } else if let Some(v) = p.strip_prefix("units=") {
            r.units = v.parse().unwrap_or(0);
        } else if let Some(v) = p.strip_prefix("detail=") {
            r.detail = v.to_string();
        }
    }
    r
}
