//! vcheck binary: see lib.rs
#[global_allocator]
static ALLOC: vcheck::worker::Counting = vcheck::worker::Counting;

fn main() {
    vcheck::cli_main();
}
