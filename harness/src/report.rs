//! Run-wide collector: counts, non-trivial fingerprints, class histogram, samples, violations.
//! Everything that ends up in evidence/<id>.json is measured here.

use serde_json::{json, Value};
use std::collections::{BTreeMap, HashSet};
use std::hash::{Hash, Hasher};
use std::sync::atomic::{AtomicBool, AtomicU64, Ordering};
use std::sync::Mutex;

#[derive(Clone, Debug)]
pub struct Fail {
    /// names the root cause by input shape / call site, stable across random values
    pub signature: String,
    pub message: String,
}

impl Fail {
    pub fn new(signature: impl Into<String>, message: impl Into<String>) -> Self {
        Self {
            signature: signature.into(),
            message: message.into(),
        }
    }
}

pub type CheckResult = Result<(), Fail>;

#[derive(Clone, Debug)]
pub struct Violation {
    pub signature: String,
    pub message: String,
    pub case: Value,
    pub replay: Option<String>,
}

pub struct Collector {
    pub property: String,
    pub evaluations: AtomicU64,
    nontrivial: Mutex<HashSet<u64>>,
    classes: Mutex<BTreeMap<String, u64>>,
    samples: Mutex<Vec<Value>>,
    pub violations: Mutex<Vec<Violation>>,
    pub known_hits: Mutex<BTreeMap<String, (u64, String)>>,
    pub known: Vec<String>,
    pub stop: AtomicBool,
    pub notes: Mutex<Vec<String>>,
    pub off_property: Mutex<BTreeMap<String, u64>>,
    pub max_samples: usize,
    /// When true, this collector is a scratch one used during shrinking / replay.
    pub scratch: bool,
}

pub fn fp<T: Hash>(t: &T) -> u64 {
    let mut h = std::collections::hash_map::DefaultHasher::new();
    t.hash(&mut h);
    h.finish()
}

impl Collector {
    pub fn new(property: &str, known: Vec<String>) -> Self {
        Self {
            property: property.to_string(),
            evaluations: AtomicU64::new(0),
            nontrivial: Mutex::new(HashSet::new()),
            classes: Mutex::new(BTreeMap::new()),
            samples: Mutex::new(Vec::new()),
            violations: Mutex::new(Vec::new()),
            known_hits: Mutex::new(BTreeMap::new()),
            known,
            stop: AtomicBool::new(false),
            notes: Mutex::new(Vec::new()),
            off_property: Mutex::new(BTreeMap::new()),
            max_samples: 5,
            scratch: false,
        }
    }

    pub fn scratch(&self) -> Self {
        let mut c = Self::new(&self.property, self.known.clone());
        c.scratch = true;
        c
    }

    pub fn eval(&self, n: u64) {
        self.evaluations.fetch_add(n, Ordering::Relaxed);
    }

    /// Record a distinct non-trivial case by fingerprint.
    pub fn nontrivial<T: Hash>(&self, t: &T) -> bool {
        self.nontrivial.lock().unwrap().insert(fp(t))
    }

    pub fn nontrivial_count(&self) -> usize {
        self.nontrivial.lock().unwrap().len()
    }

    pub fn class(&self, name: &str) {
        self.class_n(name, 1);
    }

    pub fn class_n(&self, name: &str, n: u64) {
        *self
            .classes
            .lock()
            .unwrap()
            .entry(name.to_string())
            .or_insert(0) += n;
    }

    pub fn class_count(&self, name: &str) -> u64 {
        self.classes.lock().unwrap().get(name).copied().unwrap_or(0)
    }

    pub fn sample(&self, v: impl FnOnce() -> Value) {
        let mut s = self.samples.lock().unwrap();
        if s.len() < self.max_samples {
            s.push(v());
        }
    }

    pub fn wants_sample(&self) -> bool {
        self.samples.lock().unwrap().len() < self.max_samples
    }

    pub fn note(&self, s: impl Into<String>) {
        let s = s.into();
        let mut n = self.notes.lock().unwrap();
        if !n.contains(&s) {
            n.push(s);
        }
    }

    pub fn off_property(&self, what: &str) {
        *self
            .off_property
            .lock()
            .unwrap()
            .entry(what.to_string())
            .or_insert(0) += 1;
    }

    pub fn is_known(&self, signature: &str) -> bool {
        self.known.iter().any(|k| k == signature)
    }

    /// Record a listed finding (counted, search continues).
    pub fn known_hit(&self, signature: &str, what: &str) {
        let mut k = self.known_hits.lock().unwrap();
        let e = k
            .entry(signature.to_string())
            .or_insert((0, what.to_string()));
        e.0 += 1;
    }

    pub fn violation(&self, v: Violation) {
        self.stop.store(true, Ordering::SeqCst);
        self.violations.lock().unwrap().push(v);
    }

    pub fn stopped(&self) -> bool {
        self.stop.load(Ordering::SeqCst)
    }

    pub fn to_json(&self) -> Value {
        let classes: BTreeMap<String, u64> = self.classes.lock().unwrap().clone();
        let viol: Vec<Value> = self
            .violations
            .lock()
            .unwrap()
            .iter()
            .map(|v| {
                json!({"signature": v.signature, "message": v.message, "replay": v.replay, "case": v.case})
            })
            .collect();
        let known: Vec<Value> = self
            .known_hits
            .lock()
            .unwrap()
            .iter()
            .map(|(k, (n, what))| json!({"signature": k, "count": n, "what": what}))
            .collect();
        json!({
            "evaluations": self.evaluations.load(Ordering::Relaxed),
            "distinct_nontrivial": self.nontrivial_count(),
            "classes": classes,
            "samples": self.samples.lock().unwrap().clone(),
            "violations": viol,
            "known_findings_hit": known,
            "notes": self.notes.lock().unwrap().clone(),
            "off_property": self.off_property.lock().unwrap().clone(),
        })
    }
}
