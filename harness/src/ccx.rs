//! Thin helpers over the public API of the crate under test.

#![allow(dead_code)]

pub use cosmian_cover_crypt::{
    api::Covercrypt,
    traits::{KemAc, PkeAc},
    AccessPolicy, AccessStructure, CleartextHeader, EncryptedHeader, EncryptionHint, Error, MasterPublicKey,
    MasterSecretKey, QualifiedAttribute, UserSecretKey, XEnc,
};
pub use cosmian_crypto_core::bytes_ser_de::Serializable;
pub use cosmian_crypto_core::Aes256Gcm;

use crate::report::Fail;

pub fn ser<T: Serializable>(t: &T) -> Result<Vec<u8>, Fail>
where
    T::Error: std::fmt::Display,
{
    t.serialize()
        .map(|z| z.to_vec())
        .map_err(|e| Fail::new("serialize-error", format!("serialize failed: {e}")))
}

pub fn de<T: Serializable>(b: &[u8]) -> Result<T, String>
where
    T::Error: std::fmt::Display,
{
    T::deserialize(b).map_err(|e| {
        let s = e.to_string();
        s.chars().take(160).collect()
    })
}

pub fn pke_encrypt(cc: &Covercrypt, mpk: &MasterPublicKey, ap: &AccessPolicy, ptx: &[u8]) -> Result<(XEnc, Vec<u8>), Error> {
    PkeAc::<{ Aes256Gcm::KEY_LENGTH }, Aes256Gcm>::encrypt(cc, mpk, ap, ptx)
}

pub fn pke_decrypt(cc: &Covercrypt, usk: &UserSecretKey, ctx: &(XEnc, Vec<u8>)) -> Result<Option<Vec<u8>>, Error> {
    PkeAc::<{ Aes256Gcm::KEY_LENGTH }, Aes256Gcm>::decrypt(cc, usk, ctx).map(|o| o.map(|z| z.to_vec()))
}

/// Through the public constructor, as an application that builds hints from booleans does.
pub fn hint(h: bool) -> EncryptionHint {
    EncryptionHint::new(h)
}

pub fn qa(d: &str, a: &str) -> QualifiedAttribute {
    QualifiedAttribute::new(d, a)
}

pub fn short_err(e: &Error) -> String {
    e.to_string().chars().take(120).collect()
}

/// Evaluate an `AccessPolicy` AST under a truth assignment of its attributes.
pub fn eval_policy(p: &AccessPolicy, truth: &dyn Fn(&QualifiedAttribute) -> bool) -> bool {
    match p {
        AccessPolicy::Broadcast => true,
        AccessPolicy::Term(q) => truth(q),
        AccessPolicy::Conjunction(a, b) => eval_policy(a, truth) && eval_policy(b, truth),
        AccessPolicy::Disjunction(a, b) => eval_policy(a, truth) || eval_policy(b, truth),
    }
}

pub fn eval_dnf(dnf: &[Vec<QualifiedAttribute>], truth: &dyn Fn(&QualifiedAttribute) -> bool) -> bool {
    dnf.iter().any(|c| c.iter().all(truth))
}

pub fn policy_attrs(p: &AccessPolicy, out: &mut Vec<QualifiedAttribute>) {
    match p {
        AccessPolicy::Broadcast => {}
        AccessPolicy::Term(q) => out.push(q.clone()),
        AccessPolicy::Conjunction(a, b) | AccessPolicy::Disjunction(a, b) => {
            policy_attrs(a, out);
            policy_attrs(b, out);
        }
    }
}

/// Serialize through `write` and check the announced length and the returned byte count [C13].
pub fn ser_strict<T: Serializable>(t: &T, what: &str) -> Result<Vec<u8>, Fail>
where
    T::Error: std::fmt::Display,
{
    use cosmian_crypto_core::bytes_ser_de::Serializer;
    let mut s = Serializer::new();
    let n = t.write(&mut s).map_err(|e| Fail::new("serialize-error", format!("{what}: {e}")))?;
    let bytes = s.finalize().to_vec();
    if n != bytes.len() {
        return Err(Fail::new(format!("write-count-mismatch:{what}"), format!("{what}: write() returned {n} but appended {} bytes", bytes.len())));
    }
    if t.length() != bytes.len() {
        return Err(Fail::new(format!("length-mismatch:{what}"), format!("{what}: length() announces {} but serialization is {} bytes", t.length(), bytes.len())));
    }
    let b2 = ser(t)?;
    if b2 != bytes {
        return Err(Fail::new(format!("serialize-not-deterministic:{what}"), format!("{what}: two serializations differ")));
    }
    Ok(bytes)
}

thread_local! {
    static TL_CC: Covercrypt = Covercrypt::default();
}

/// A per-thread instance: `Covercrypt` holds its RNG behind a mutex for the whole duration of
/// each call, so sharing one instance between harness threads would serialize them. Keys and
/// encapsulations do not depend on the instance.
pub fn with_cc<T>(f: impl FnOnce(&Covercrypt) -> T) -> T {
    TL_CC.with(|cc| f(cc))
}
