//! Scalar / point arithmetic done directly with the curve libraries (dependencies of the crate,
//! not code under test), on the byte strings found in serialized keys.

#![allow(dead_code)]

#[cfg(any(feature = "cfg-r25519-512", feature = "cfg-r25519-768"))]
mod imp {
    use curve25519_dalek::constants::RISTRETTO_BASEPOINT_POINT;
    use curve25519_dalek::ristretto::CompressedRistretto;
    use curve25519_dalek::scalar::Scalar;

    pub fn scalar(b: &[u8]) -> Result<Scalar, String> {
        let a: [u8; 32] = b.try_into().map_err(|_| "scalar length".to_string())?;
        Option::<Scalar>::from(Scalar::from_canonical_bytes(a)).ok_or_else(|| "non-canonical scalar".to_string())
    }

    /// sum_i a_i * t_i == s ?
    pub fn linear_relation(markers: &[Vec<u8>], tracers: &[Vec<u8>], s: &[u8]) -> Result<bool, String> {
        let mut acc = Scalar::ZERO;
        for (a, t) in markers.iter().zip(tracers.iter()) {
            acc += scalar(a)? * scalar(t)?;
        }
        Ok(acc == scalar(s)?)
    }

    /// P == t * G ?
    pub fn is_public_of(point: &[u8], sk: &[u8]) -> Result<bool, String> {
        let p = CompressedRistretto::from_slice(point).map_err(|e| e.to_string())?.decompress().ok_or("invalid point")?;
        Ok(p == RISTRETTO_BASEPOINT_POINT * scalar(sk)?)
    }

    pub fn point_valid(point: &[u8]) -> bool {
        CompressedRistretto::from_slice(point).ok().and_then(|c| c.decompress()).is_some()
    }
}

#[cfg(any(feature = "cfg-p256-512", feature = "cfg-p256-768"))]
mod imp {
    use elliptic_curve::sec1::{FromEncodedPoint, ToEncodedPoint};
    use elliptic_curve::PrimeField;
    use p256::{AffinePoint, EncodedPoint, ProjectivePoint, Scalar};

    pub fn scalar(b: &[u8]) -> Result<Scalar, String> {
        let a: [u8; 32] = b.try_into().map_err(|_| "scalar length".to_string())?;
        Option::<Scalar>::from(Scalar::from_repr(a.into())).ok_or_else(|| "non-canonical scalar".to_string())
    }

    pub fn linear_relation(markers: &[Vec<u8>], tracers: &[Vec<u8>], s: &[u8]) -> Result<bool, String> {
        let mut acc = Scalar::ZERO;
        for (a, t) in markers.iter().zip(tracers.iter()) {
            acc += scalar(a)? * scalar(t)?;
        }
        Ok(acc == scalar(s)?)
    }

    fn point(b: &[u8]) -> Result<ProjectivePoint, String> {
        let ep = EncodedPoint::from_bytes(b).map_err(|e| e.to_string())?;
        let ap = Option::<AffinePoint>::from(AffinePoint::from_encoded_point(&ep)).ok_or("invalid point")?;
        Ok(ProjectivePoint::from(ap))
    }

    pub fn is_public_of(p: &[u8], sk: &[u8]) -> Result<bool, String> {
        let want = (ProjectivePoint::GENERATOR * scalar(sk)?).to_affine().to_encoded_point(true);
        let got = point(p)?.to_affine().to_encoded_point(true);
        Ok(want == got)
    }

    pub fn point_valid(p: &[u8]) -> bool {
        point(p).is_ok()
    }
}

pub use imp::*;
